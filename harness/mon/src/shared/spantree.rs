/*!
Span-tree interpreter shared by the C04 (trace tree) and C18 (sampling) monitors.

A *tree* is plain data generated from the seed (`gen_tree`). It is executed against the real
`emit` code by a recursive interpreter written with the real macros: every node is one call of
an `#[emit::span]` function (sync or async, enabled / disabled through a call-site `when:` or
through the runtime's filter, optionally with an explicit `trace_id` property), its body emits
`emit::info!` events, yields to the executor, and runs children

* directly (call / `.await` / nested `block_on`),
* on another thread through a captured `Frame::current(ctxt).in_fn(..)`,
* inside pushed incoming ids (`Frame::push(ctxt, props!{trace_id, span_id})` as typed ids, hex
  strings or integers),
* inside a pushed `Traceparent` header, or on a fresh thread under a header formatted from the
  current traceparent (C18 only),
* as a group of async siblings polled interleaved by a small seeded executor.

While it runs, the interpreter *observes* `SpanCtxt::current(ctxt)` (and `Traceparent::current()`
on the trace-context runtimes) at every program point and logs it under the node / step it was
read at; the monitors' oracles compare that log and the recorded events with a model written
from the property statements. Nothing in here decides a verdict.

The runtime under test is a `'static` runtime (`Env::rt()`); trees run concurrently on many
threads, so the runtime's emitter (`Routed`) and the C18 sampler route through a thread-local
pointer to the tree being executed (set by `with_tree` on every thread the interpreter spawns).
*/
#![allow(dead_code)]

use std::{
    cell::{Cell, RefCell},
    future::Future,
    pin::Pin,
    sync::{
        atomic::{AtomicU64, Ordering},
        Arc, LazyLock, Mutex,
    },
    task::{Context, Poll, Waker},
    time::Duration,
};

use emit::{
    runtime::Runtime,
    span::{SpanId, TraceId},
    Clock, Ctxt, Emitter, Filter, Frame, SpanCtxt,
};
use emit_traceparent::{TraceFlags, Traceparent, Tracestate};
use vcommon::{
    json,
    rec::{Captured, Recorder},
    Json, Rng,
};

// ---------------------------------------------------------------------------
// ids as plain data
// ---------------------------------------------------------------------------

/// The three ambient ids (`SpanCtxt`) as plain integers.
#[derive(Clone, Copy, Debug, PartialEq, Eq, Hash, Default)]
pub struct Ids {
    pub trace: Option<u128>,
    pub parent: Option<u64>,
    pub span: Option<u64>,
}

impl Ids {
    pub const EMPTY: Ids = Ids {
        trace: None,
        parent: None,
        span: None,
    };

    pub fn of(c: &SpanCtxt) -> Ids {
        Ids {
            trace: c.trace_id().map(|t| t.to_u128()),
            parent: c.span_parent().map(|s| s.to_u64()),
            span: c.span_id().map(|s| s.to_u64()),
        }
    }

    pub fn show(&self) -> String {
        format!(
            "{}/{}/{}",
            self.trace.map(|t| format!("{:x}", t)).unwrap_or_else(|| "-".into()),
            self.parent.map(|t| format!("{:x}", t)).unwrap_or_else(|| "-".into()),
            self.span.map(|t| format!("{:x}", t)).unwrap_or_else(|| "-".into())
        )
    }
}

/// A traceparent as plain integers.
#[derive(Clone, Copy, Debug, PartialEq, Eq, Hash)]
pub struct Tp {
    pub trace: Option<u128>,
    pub span: Option<u64>,
    pub flags: u8,
}

impl Tp {
    /// What `Traceparent::current()` documents when nothing was set.
    pub const EMPTY: Tp = Tp {
        trace: None,
        span: None,
        flags: 1,
    };

    pub fn of(t: &Traceparent) -> Tp {
        Tp {
            trace: t.trace_id().map(|t| t.to_u128()),
            span: t.span_id().map(|s| s.to_u64()),
            flags: t.trace_flags().to_u8(),
        }
    }

    pub fn to_traceparent(&self) -> Traceparent {
        Traceparent::new(
            self.trace.and_then(TraceId::from_u128),
            self.span.and_then(SpanId::from_u64),
            TraceFlags::from_u8(self.flags),
        )
    }

    pub fn sampled(&self) -> bool {
        self.flags & 1 == 1
    }

    pub fn valid(&self) -> bool {
        self.trace.is_some() && self.span.is_some()
    }

    pub fn show(&self) -> String {
        format!(
            "{}/{}/{:02x}",
            self.trace.map(|t| format!("{:x}", t)).unwrap_or_else(|| "-".into()),
            self.span.map(|t| format!("{:x}", t)).unwrap_or_else(|| "-".into()),
            self.flags
        )
    }
}

// ---------------------------------------------------------------------------
// tree specification
// ---------------------------------------------------------------------------

pub const TOP: u32 = 0;

/// How a node is turned into a span.
#[derive(Clone, Debug, PartialEq, Eq, Hash)]
pub enum Variant {
    /// Not a span at all: the top-level pseudo node.
    Top,
    /// `#[emit::span(rt, when: from_fn(|_| enabled), "node {id}", id)]`
    When,
    /// `#[emit::span(rt, "node {id}", id, en)]`: enablement is decided by the runtime's filter
    /// (the C04 runtimes reject `en == false`; the C18 runtimes run the sampler).
    RtFilter,
    /// `#[emit::span(rt, "node {id}", id, en, trace_id: <explicit>)]` (C18: mismatched trace id in span props)
    ExplicitTrace(u128),
    /// `#[emit::span(rt, ok_lvl: Level::Info, err_lvl: "warn", "node {id}", id, en)]` on a fn that
    /// returns `Ok` / `Err`: the span ends through `complete_with`.
    ResultAware { fail: bool },
    /// `#[emit::span(rt, guard: g, "node {id}", id, en)]`, completed by hand at the end of the body.
    Guard(GuardEnd),
    /// `emit::new_span!(rt, [when: ..,] "node {id}", id[, en])`: the (guard, frame) pair is created
    /// where the parent runs this step and the frame is entered as `travel` says; the guard is
    /// dropped at the end of the body or completed with `complete_with(completion::default(..))`.
    Manual { travel: Travel, when: bool, complete_with: bool },
    /// `#[emit::span(rt, setup: <fn>, "node {id}", id, en)]` (`level`: 0 = `span`, 1 = the
    /// level-named attribute): `setup` runs BEFORE the span is created and returns a guard that is
    /// dropped when the fn returns. `header: Some(..)`: the guard pushes AND enters that incoming
    /// traceparent; `None`: a guard that touches no ambient state (control).
    Setup { header: Option<HeaderSpec>, level: u8 },
}

#[derive(Clone, Debug, PartialEq, Eq, Hash)]
pub enum GuardEnd {
    Complete,
    CompleteWith,
}

/// Where the frame of a `new_span!` pair is entered.
#[derive(Clone, Debug, PartialEq, Eq, Hash)]
pub enum Travel {
    /// `frame.call(..)` right where it was created
    Here,
    /// `frame.in_fn(..)` handed to a new thread
    Thread,
    /// `frame.in_future(..)`: a task awaited / hand-polled among its siblings
    Task,
    /// `frame.call(..)` AFTER the span it was created in has ended
    Deferred,
}

/// The form incoming ids are placed in the context with.
#[derive(Clone, Debug, PartialEq, Eq, Hash)]
pub enum IdForm {
    Typed,
    HexLower,
    HexUpper,
    Int,
}

/// An incoming trace id WITHOUT a usable span id, and how it is placed in the context.
#[derive(Clone, Debug, PartialEq, Eq, Hash)]
pub enum TraceOnly {
    /// `SpanCtxt::new(Some(trace), None, None).push(ctxt)`
    SpanCtxtPush,
    /// `Frame::push(ctxt, props!{ trace_id })` with a typed `TraceId` / 32 hex chars / a `u128`
    Typed,
    HexLower,
    HexUpper,
    Int,
    /// typed trace id + `span_id: "0000000000000000"`
    TypedZeroSpanText,
    /// hex trace id + `span_id: "not-a-span-id"`
    HexGarbageSpanText,
    /// `u128` trace id + `span_id: 0u64`
    IntZeroSpanInt,
}

impl TraceOnly {
    pub fn name(&self) -> &'static str {
        match self {
            TraceOnly::SpanCtxtPush => "trace-only-spanctxt",
            TraceOnly::Typed => "trace-only-typed",
            TraceOnly::HexLower => "trace-only-hex",
            TraceOnly::HexUpper => "trace-only-HEX",
            TraceOnly::Int => "trace-only-int",
            TraceOnly::TypedZeroSpanText => "trace+zero-span-text",
            TraceOnly::HexGarbageSpanText => "trace+garbage-span-text",
            TraceOnly::IntZeroSpanInt => "trace-int+zero-span-int",
        }
    }

    /// The pushed span id is present but unusable (what a child's parent is then is not settled).
    pub fn has_unusable_span(&self) -> bool {
        matches!(self, TraceOnly::TypedZeroSpanText | TraceOnly::HexGarbageSpanText | TraceOnly::IntZeroSpanInt)
    }

    /// Events that read the trace id straight from the context show it in decimal.
    pub fn decimal(&self) -> bool {
        matches!(self, TraceOnly::Int | TraceOnly::IntZeroSpanInt)
    }
}

#[derive(Clone, Debug, PartialEq, Eq, Hash)]
pub enum HeaderSpec {
    /// A header of some other service: its own trace id, span id and flags.
    Fresh { trace: u128, span: u64, flags: u8 },
    /// An INVALID header: all-zero ids, or partially zero (`trace`: non-zero trace id with an
    /// all-zero parent id; `span`: zero trace id with a non-zero parent id; never both).
    Invalid { flags: u8, trace: Option<u128>, span: Option<u64> },
    /// Same trace id as the traceparent that is current where it is pushed, another span id;
    /// flags as given or (None) those of the current one.
    SameTrace { span: u64, flags: Option<u8> },
}

#[derive(Clone, Debug, PartialEq, Eq, Hash)]
pub enum PlainHow {
    Call,
    Thread,
    Future,
}

/// What a child is run through.
#[derive(Clone, Debug, PartialEq, Eq, Hash)]
pub enum Via {
    Direct,
    /// `Frame::current(ctxt).in_fn(..)` handed to a new thread.
    Thread,
    /// `Frame::push(ctxt, props!{trace_id, span_id})`
    Props { trace: u128, span: u64, parent: Option<u64>, form: IdForm },
    /// An incoming trace id without a usable span id; `handoff`: the child additionally runs on
    /// another thread through a `Frame::current(ctxt)` captured inside the pushed frame.
    TraceOnly { trace: u128, how: TraceOnly, handoff: bool },
    /// A NON-span frame captured inside whatever is current: `Frame::push(ctxt, ("plain", 1))`,
    /// then `call` on this thread / `in_fn` handed to a new thread / `in_future` around the child.
    Plain { how: PlainHow },
    /// `Traceparent::push()` (or `emit_traceparent::push(tp, tracestate)` when `with_state`).
    Header { spec: HeaderSpec, with_state: bool },
    /// A fresh thread under a header *formatted from* `Traceparent::current()` and parsed back.
    Remote,
    /// `catch_unwind(|| child)`: the child's subtree ends in a scripted panic (`Node::unwinds`).
    Catch,
    /// CANCELLATION: the child's future is created, polled `polls` times by hand and then DROPPED.
    /// The child is a chain of `polls` async nodes, each suspended at a yield or inside the next
    /// one (`Node::unwinds`: their bodies never get to the end); `polls == 0`: never polled.
    Cancel { polls: u8 },
}

#[derive(Clone, Debug, PartialEq, Eq, Hash)]
pub enum Step {
    Event(u32),
    /// Async bodies yield to the executor once; a no-op in sync bodies.
    Yield,
    Child { node: Node, via: Via },
    /// Async siblings polled interleaved (seeded schedule). Sync members are wrapped in a future.
    Group { nodes: Vec<Node>, sched: u64 },
    /// `panic!(..)`; always the last step of a node that `unwinds`.
    Panic,
}

#[derive(Clone, Debug, PartialEq, Eq, Hash)]
pub struct Node {
    pub id: u32,
    pub enabled: bool,
    pub is_async: bool,
    pub variant: Variant,
    pub steps: Vec<Step>,
    /// The body does not return: its last step panics or is a child that unwinds.
    pub unwinds: bool,
}

impl Node {
    pub fn children(&self) -> impl Iterator<Item = &Node> {
        self.steps.iter().flat_map(|s| -> Box<dyn Iterator<Item = &Node> + '_> {
            match s {
                Step::Child { node, .. } => Box::new(std::iter::once(node)),
                Step::Group { nodes, .. } => Box::new(nodes.iter()),
                _ => Box::new(std::iter::empty()),
            }
        })
    }

    pub fn count(&self) -> u32 {
        1 + self.children().map(|c| c.count()).sum::<u32>()
    }

    pub fn depth(&self) -> u32 {
        1 + self.children().map(|c| c.depth()).max().unwrap_or(0)
    }

    pub fn to_json(&self) -> Json {
        json!({
            "id": self.id,
            "enabled": self.enabled,
            "async": self.is_async,
            "variant": match &self.variant {
                Variant::Top => "top".to_string(),
                Variant::When => "when".to_string(),
                Variant::RtFilter => "rt-filter".to_string(),
                Variant::ExplicitTrace(t) => format!("explicit-trace:{:032x}", t),
                other => format!("{:?}", other),
            },
            "unwinds": self.unwinds,
            "steps": self.steps.iter().map(|s| match s {
                Step::Event(e) => json!({"event": e}),
                Step::Yield => json!("yield"),
                Step::Panic => json!("panic"),
                Step::Child { node, via } => json!({"via": format!("{:?}", via), "child": node.to_json()}),
                Step::Group { nodes, sched } => json!({"group": nodes.iter().map(|n| n.to_json()).collect::<Vec<_>>(), "sched": sched}),
            }).collect::<Vec<_>>(),
        })
    }

    /// A structural signature (no ids / schedules): what "distinct shape" means in the evidence.
    pub fn shape(&self, out: &mut Vec<u8>) {
        out.push(b'(');
        out.push(match &self.variant {
            Variant::Top => b'T',
            Variant::When => b'w',
            Variant::RtFilter => b'r',
            Variant::ExplicitTrace(_) => b'x',
            Variant::ResultAware { fail: false } => b'k',
            Variant::ResultAware { fail: true } => b'E',
            Variant::Guard(GuardEnd::Complete) => b'g',
            Variant::Guard(GuardEnd::CompleteWith) => b'G',
            Variant::Setup { header, level } => {
                0x40 + level * 8
                    + match header {
                        None => 0,
                        Some(HeaderSpec::Fresh { flags, .. }) => 1 + (flags & 1),
                        Some(HeaderSpec::Invalid { flags, trace, span }) => 3 + (flags & 1) + 16 * (trace.is_some() as u8) + 32 * (span.is_some() as u8),
                        Some(HeaderSpec::SameTrace { .. }) => 5,
                    }
            }
            Variant::Manual { travel, when, complete_with } => {
                let t = match travel {
                    Travel::Here => 0u8,
                    Travel::Thread => 1,
                    Travel::Task => 2,
                    Travel::Deferred => 3,
                };
                0x80 + t * 4 + (*when as u8) * 2 + *complete_with as u8
            }
        });
        if self.unwinds {
            out.push(b'!');
        }
        out.push(if self.enabled { b'+' } else { b'-' });
        out.push(if self.is_async { b'a' } else { b's' });
        for s in &self.steps {
            match s {
                Step::Event(_) => out.push(b'e'),
                Step::Yield => out.push(b'y'),
                Step::Panic => out.push(b'p'),
                Step::Child { node, via } => {
                    out.push(match via {
                        Via::Direct => b'd',
                        Via::Thread => b't',
                        Via::Plain { how } => match how {
                            PlainHow::Call => b'c',
                            PlainHow::Thread => b'T',
                            PlainHow::Future => b'f',
                        },
                        Via::Props { form, .. } => match form {
                            IdForm::Typed => b'P',
                            IdForm::HexLower => b'h',
                            IdForm::HexUpper => b'H',
                            IdForm::Int => b'i',
                        },
                        Via::TraceOnly { how, handoff, .. } => {
                            (if *handoff { 8 } else { 0 }) + match how {
                                TraceOnly::SpanCtxtPush => b'0',
                                TraceOnly::Typed => b'1',
                                TraceOnly::HexLower => b'2',
                                TraceOnly::HexUpper => b'3',
                                TraceOnly::Int => b'4',
                                TraceOnly::TypedZeroSpanText => b'5',
                                TraceOnly::HexGarbageSpanText => b'6',
                                TraceOnly::IntZeroSpanInt => b'7',
                            }
                        }
                        Via::Header { spec, with_state } => match (spec, with_state) {
                            (HeaderSpec::Fresh { flags, .. }, _) => {
                                if flags & 1 == 1 {
                                    b'S'
                                } else {
                                    b'U'
                                }
                            }
                            (HeaderSpec::Invalid { flags, trace, span }, _) => match (trace.is_some(), span.is_some(), flags & 1 == 1) {
                                (false, false, true) => b'Z',
                                (false, false, false) => b'z',
                                (true, _, true) => b'V',
                                (true, _, false) => b'v',
                                (_, _, true) => b'W',
                                (_, _, false) => b'w',
                            },
                            (HeaderSpec::SameTrace { .. }, _) => b'M',
                        },
                        Via::Remote => b'R',
                        Via::Catch => b'C',
                        Via::Cancel { polls } => b'0' + polls,
                    });
                    node.shape(out);
                }
                Step::Group { nodes, .. } => {
                    out.push(b'[');
                    for n in nodes {
                        n.shape(out);
                    }
                    out.push(b']');
                }
            }
        }
        out.push(b')');
    }
}

// ---------------------------------------------------------------------------
// generator
// ---------------------------------------------------------------------------

#[derive(Clone, Debug)]
pub struct GenCfg {
    /// Generate for the trace-context runtimes (headers, remote hops, explicit trace ids, no disabled nodes).
    pub traceparent: bool,
    pub max_depth: u32,
    pub max_fan: u32,
    pub max_nodes: u32,
}

struct Profile {
    // all "x in 16"
    p_disabled: u64,
    p_async: u64,
    p_thread: u64,
    p_group: u64,
    p_event: u64,
    p_yield: u64,
    p_when: u64,
    p_header: u64,
    p_remote: u64,
    p_explicit: u64,
    p_deeper: u64,
    p_plain: u64,
    p_ending: u64,
    p_catch: u64,
    p_setup: u64,
    p_cancel: u64,
}

struct Gen<'a> {
    g: &'a mut Rng,
    cfg: &'a GenCfg,
    p: Profile,
    next_id: u32,
    next_eid: u32,
    budget: u32,
}

fn rand_trace(g: &mut Rng) -> u128 {
    // away from the counting rng's small values, all widths incl. the top bit
    match g.below(4) {
        0 => (1u128 << 127) | g.next() as u128,
        1 => 0xffff_ffff_ffff_ffff_ffff_ffff_ffff_ffff - g.below(1 << 20) as u128,
        _ => (((g.next() as u128) << 64) | g.next() as u128) | (1u128 << 100),
    }
}

fn rand_span(g: &mut Rng) -> u64 {
    match g.below(4) {
        0 => (1u64 << 63) | g.next(),
        1 => u64::MAX - g.below(1 << 20),
        _ => g.next() | (1u64 << 50),
    }
}

/// Integers whose DECIMAL text has exactly as many digits as the id's hex text has characters.
fn decimal_looking_trace(g: &mut Rng) -> u128 {
    let p31 = 10u128.pow(31);
    p31 + ((((g.next() as u128) << 64) | g.next() as u128) % (9 * p31))
}

fn decimal_looking_span(g: &mut Rng) -> u64 {
    let p15 = 10u64.pow(15);
    p15 + g.below(9 * p15)
}

/// An invalid header: all-zero, or one of the partially-zero shapes.
fn invalid_header(g: &mut Rng, flags: u8) -> HeaderSpec {
    match g.below(3) {
        0 => HeaderSpec::Invalid {
            flags,
            trace: None,
            span: None,
        },
        1 => HeaderSpec::Invalid {
            flags,
            trace: Some(rand_trace(g)),
            span: None,
        },
        _ => HeaderSpec::Invalid {
            flags,
            trace: None,
            span: Some(rand_span(g)),
        },
    }
}

fn rand_flags(g: &mut Rng, sampled: bool) -> u8 {
    let extra = if g.chance(1, 6) { (g.below(127) as u8) << 1 } else { 0 };
    extra | sampled as u8
}

impl<'a> Gen<'a> {
    fn eid(&mut self) -> u32 {
        self.next_eid += 1;
        self.next_eid
    }

    /// A chain of `left` async nodes for `Via::Cancel`: events, ONE yield, then the next node of the
    /// chain (awaited directly). After `left` polls every node of the chain has started, the last
    /// one is suspended at its yield and all the others inside the await of the next one.
    fn cancel_chain(&mut self, depth: u32, left: u8) -> Node {
        self.next_id += 1;
        let id = self.next_id;
        let tp = self.cfg.traceparent;
        let mut steps = Vec::new();
        for _ in 0..self.g.below(3) {
            let e = self.eid();
            steps.push(Step::Event(e));
        }
        steps.push(Step::Yield);
        if left > 1 {
            if self.g.bool() {
                let e = self.eid();
                steps.push(Step::Event(e));
            }
            let node = self.cancel_chain(depth + 1, left - 1);
            steps.push(Step::Child { node, via: Via::Direct });
        }
        Node {
            id,
            enabled: tp || !self.g.chance(self.p.p_disabled, 16),
            is_async: true,
            variant: match self.g.below(if tp { 7 } else { 9 }) {
                0 => Variant::ResultAware { fail: false },
                1 => Variant::Guard(GuardEnd::CompleteWith),
                2 => Variant::Guard(GuardEnd::Complete),
                // `new_span!` + `frame.in_future` (not for a future that is never polled: the pair
                // would be created - and the sampler asked - for a span nothing can be observed of)
                3 | 4 if left > 0 => Variant::Manual {
                    travel: Travel::Task,
                    when: !tp && self.g.bool(),
                    complete_with: self.g.bool(),
                },
                7 | 8 => Variant::When,
                _ => Variant::RtFilter,
            },
            steps,
            unwinds: left > 0,
        }
    }

    /// A sync node whose body ends in a panic (directly, or through a child that does).
    fn panic_chain(&mut self, depth: u32) -> Node {
        self.next_id += 1;
        let id = self.next_id;
        let mut steps = self.steps(depth, false, false, false);
        let tp = self.cfg.traceparent;
        if depth < self.cfg.max_depth + 2 && self.g.chance(7, 16) {
            let via = match self.g.below(4) {
                0 => Via::Direct,
                1 => Via::Plain { how: PlainHow::Call },
                // (the panic crosses the thread boundary through `join` + `resume_unwind`)
                2 if !tp => Via::Plain { how: PlainHow::Thread },
                3 if !tp => Via::Direct,
                _ => {
                    let sampled = self.g.bool();
                    Via::Header {
                        spec: match self.g.below(3) {
                            0 => invalid_header(self.g, sampled as u8),
                            _ => HeaderSpec::Fresh {
                                trace: rand_trace(self.g),
                                span: rand_span(self.g),
                                flags: sampled as u8,
                            },
                        },
                        with_state: false,
                    }
                }
            };
            let node = self.panic_chain(depth + 1);
            steps.push(Step::Child { node, via });
        } else {
            steps.push(Step::Panic);
        }
        Node {
            id,
            enabled: tp || !self.g.chance(self.p.p_disabled, 16),
            is_async: false,
            variant: match self.g.below(if tp { 8 } else { 12 }) {
                0 | 1 => Variant::ResultAware { fail: false },
                2 => Variant::Guard(GuardEnd::CompleteWith),
                3 => Variant::Guard(GuardEnd::Complete),
                8 | 9 => Variant::When,
                // guard-based `new_span!` + `frame.call`
                10 | 11 => Variant::Manual {
                    travel: Travel::Here,
                    when: self.g.bool(),
                    complete_with: self.g.bool(),
                },
                _ => Variant::RtFilter,
            },
            steps,
            unwinds: true,
        }
    }

    fn node(&mut self, depth: u32, in_group: bool, parent_takes_deferred: bool) -> Node {
        self.next_id += 1;
        let id = self.next_id;
        let tp = self.cfg.traceparent;
        let enabled = tp || !self.g.chance(self.p.p_disabled, 16);
        let is_async = in_group && self.g.chance(14, 16) || self.g.chance(self.p.p_async, 16);
        let variant = if tp {
            if self.g.chance(self.p.p_explicit, 16) {
                Variant::ExplicitTrace(rand_trace(self.g))
            } else {
                Variant::RtFilter
            }
        } else if self.g.chance(self.p.p_when, 16) {
            Variant::When
        } else {
            Variant::RtFilter
        };
        // the span's context established by the macro's `setup:` parameter (C18)
        let setup = tp && variant == Variant::RtFilter && self.g.chance(self.p.p_setup, 16);
        let variant = if setup {
            let g = &mut *self.g;
            let header = match g.below(8) {
                0 => None,
                1 | 2 => Some(HeaderSpec::Fresh {
                    trace: rand_trace(g),
                    span: rand_span(g),
                    flags: rand_flags(g, true),
                }),
                3 | 4 => Some(HeaderSpec::Fresh {
                    trace: rand_trace(g),
                    span: rand_span(g),
                    flags: rand_flags(g, false),
                }),
                5 => Some(invalid_header(g, 0)),
                6 => {
                    let f = rand_flags(g, true);
                    Some(invalid_header(g, f))
                }
                _ => Some(HeaderSpec::SameTrace {
                    span: rand_span(g),
                    flags: if g.chance(1, 3) { Some(g.below(2) as u8) } else { None },
                }),
            };
            Variant::Setup {
                header,
                level: g.below(2) as u8,
            }
        } else {
            variant
        };
        // other ways for the span to end / to be created
        let variant = if variant != Variant::RtFilter && variant != Variant::When || !self.g.chance(self.p.p_ending, 16) {
            variant
        } else {
            match self.g.below(if tp { 5 } else { 8 }) {
                0 => Variant::ResultAware { fail: false },
                1 => Variant::ResultAware { fail: true },
                2 => Variant::Guard(GuardEnd::Complete),
                3 => Variant::Guard(GuardEnd::CompleteWith),
                n => {
                    let travel = if tp {
                        // (the frame of a span is C04's subject; here only how the guard ends)
                        if is_async && self.g.bool() {
                            Travel::Task
                        } else {
                            Travel::Here
                        }
                    } else {
                        match n {
                            4 => Travel::Here,
                            5 => Travel::Thread,
                            6 if is_async => Travel::Task,
                            _ if parent_takes_deferred && !in_group => Travel::Deferred,
                            _ => Travel::Thread,
                        }
                    };
                    Variant::Manual {
                        travel,
                        // a call-site `when:` bypasses the runtime filter (and so the sampler): not for C18
                        when: !tp && self.g.bool(),
                        complete_with: self.g.chance(1, 3),
                    }
                }
            }
        };
        // (a deferred frame is entered by whoever ran its creator, on the creator's thread)
        let takes_deferred = !matches!(
            variant,
            Variant::Manual {
                travel: Travel::Deferred | Travel::Thread,
                ..
            }
        );
        let mut steps = self.steps(depth, is_async, false, takes_deferred);
        if is_async && matches!(variant, Variant::Setup { .. }) {
            // The guard returned by `setup` stays alive (and its header entered on this thread) for
            // the whole call, across every await: such a fn must not yield to an executor that runs
            // other tasks on the thread. So its body never yields: no yield steps, and its direct
            // children are synchronous (whatever is below them runs under nested `block_on`s).
            let mut flat = Vec::new();
            for s in steps.drain(..) {
                match s {
                    Step::Yield => {}
                    Step::Group { nodes, .. } => {
                        for n in nodes {
                            flat.push(Step::Child { node: n, via: Via::Direct });
                        }
                    }
                    other => flat.push(other),
                }
            }
            for s in flat.iter_mut() {
                // (a future that is hand-polled and dropped right here never yields outwards)
                if let Step::Child { via: Via::Cancel { .. }, .. } = s {
                    continue;
                }
                if let Step::Child { node, .. } = s {
                    node.is_async = false;
                    if let Variant::Manual { travel, .. } = &mut node.variant {
                        if *travel == Travel::Task {
                            *travel = Travel::Here;
                        }
                    }
                }
            }
            steps = flat;
        }
        Node {
            id,
            enabled,
            is_async,
            variant,
            steps,
            unwinds: false,
        }
    }

    fn via(&mut self, top: bool) -> Via {
        let g = &mut *self.g;
        if self.cfg.traceparent {
            if g.chance(self.p.p_header + if top { 6 } else { 0 }, 16) {
                let spec = match g.below(if top { 6 } else { 8 }) {
                    0 | 1 => HeaderSpec::Fresh {
                        trace: rand_trace(g),
                        span: rand_span(g),
                        flags: rand_flags(g, true),
                    },
                    2 | 3 => HeaderSpec::Fresh {
                        trace: rand_trace(g),
                        span: rand_span(g),
                        flags: rand_flags(g, false),
                    },
                    4 => invalid_header(g, 0),
                    5 => {
                        let sampled = g.bool();
                        {
                            let f = rand_flags(g, sampled);
                            invalid_header(g, f)
                        }
                    }
                    _ => HeaderSpec::SameTrace {
                        span: rand_span(g),
                        flags: if g.chance(1, 3) { Some(g.below(2) as u8) } else { None },
                    },
                };
                return Via::Header {
                    spec,
                    with_state: g.chance(1, 4),
                };
            }
            if g.chance(self.p.p_remote, 16) {
                return Via::Remote;
            }
        } else if top && g.chance(4, 16) {
            let how = match g.below(8) {
                    0 => TraceOnly::SpanCtxtPush,
                    1 => TraceOnly::Typed,
                    2 => TraceOnly::HexLower,
                    3 => TraceOnly::HexUpper,
                    4 => TraceOnly::Int,
                    5 => TraceOnly::TypedZeroSpanText,
                    6 => TraceOnly::HexGarbageSpanText,
                    _ => TraceOnly::IntZeroSpanInt,
            };
            return Via::TraceOnly {
                trace: if how.decimal() && g.bool() { decimal_looking_trace(g) } else { rand_trace(g) },
                how,
                handoff: g.chance(1, 4),
            };
        } else if top && g.chance(7, 12) {
            let form = match g.below(4) {
                0 => IdForm::Typed,
                1 => IdForm::HexLower,
                2 => IdForm::HexUpper,
                _ => IdForm::Int,
            };
            // integers that LOOK like hex ids when printed (16 / 32 decimal digits)
            let looks = form == IdForm::Int && g.chance(5, 8);
            return Via::Props {
                trace: if looks { decimal_looking_trace(g) } else { rand_trace(g) },
                span: if looks { decimal_looking_span(g) } else { rand_span(g) },
                parent: if g.chance(1, 3) {
                    Some(if looks { decimal_looking_span(g) } else { rand_span(g) })
                } else {
                    None
                },
                form,
            };
        }
        if !self.cfg.traceparent && !top && g.chance(self.p.p_plain, 16) {
            return Via::Plain {
                how: match g.below(3) {
                    0 => PlainHow::Call,
                    1 => PlainHow::Thread,
                    _ => PlainHow::Future,
                },
            };
        }
        if g.chance(self.p.p_thread, 16) {
            Via::Thread
        } else {
            Via::Direct
        }
    }

    fn steps(&mut self, depth: u32, is_async: bool, top: bool, takes_deferred: bool) -> Vec<Step> {
        let mut steps = Vec::new();
        let fan = if depth >= self.cfg.max_depth || self.budget == 0 {
            0
        } else if top {
            1 + self.g.below(self.cfg.max_fan.min(3) as u64) as u32
        } else if self.g.chance(self.p.p_deeper, 16) {
            1 + self.g.below(self.cfg.max_fan as u64) as u32
        } else {
            0
        };
        let mut left = fan;
        loop {
            if self.g.chance(self.p.p_event, 16) {
                let e = self.eid();
                steps.push(Step::Event(e));
            }
            if is_async && self.g.chance(self.p.p_yield, 16) {
                steps.push(Step::Yield);
            }
            if left == 0 || self.budget == 0 {
                break;
            }
            if left >= 2 && self.budget >= 2 && self.g.chance(self.p.p_group, 16) {
                let n = (2 + self.g.below((left - 1) as u64) as u32).min(self.budget);
                left -= n;
                self.budget -= n;
                let nodes = (0..n).map(|_| self.node(depth + 1, true, false)).collect();
                steps.push(Step::Group {
                    nodes,
                    sched: self.g.next(),
                });
            } else {
                left -= 1;
                self.budget -= 1;
                if self.g.chance(self.p.p_catch, 16) {
                    let node = self.panic_chain(depth + 1);
                    steps.push(Step::Child { node, via: Via::Catch });
                    continue;
                }
                if self.g.chance(self.p.p_cancel, 16) {
                    let polls = self.g.below(4) as u8;
                    let node = self.cancel_chain(depth + 1, polls);
                    steps.push(Step::Child {
                        node,
                        via: Via::Cancel { polls },
                    });
                    continue;
                }
                let via = self.via(top);
                let node = self.node(depth + 1, false, !top && takes_deferred && via == Via::Direct);
                // a `new_span!` frame that travels is entered from right here
                let via = match &node.variant {
                    Variant::Manual { travel, .. } if *travel != Travel::Here => Via::Direct,
                    _ => via,
                };
                steps.push(Step::Child { node, via });
            }
        }
        if self.g.chance(self.p.p_event, 32) {
            let e = self.eid();
            steps.push(Step::Event(e));
        }
        steps
    }
}

/// Generate the top-level pseudo node of a tree.
pub fn gen_tree(g: &mut Rng, cfg: &GenCfg) -> Node {
    // a profile per tree, so that all-sync / all-async / thread-heavy / deep trees all occur
    // (under Miri trees are tiny, so every profile is feature-dense there)
    let dense = cfg!(miri);
    let lvl = |g: &mut Rng| *g.pick(if dense { &[5u64, 9, 9, 14, 14] } else { &[0u64, 2, 5, 9, 14] });
    let p = Profile {
        p_disabled: *g.pick(&[0u64, 3, 6, 10]),
        p_async: lvl(g),
        p_thread: *g.pick(if dense { &[2u64, 3, 4, 6] } else { &[0u64, 1, 3, 6] }),
        p_group: *g.pick(if dense { &[3u64, 6, 8, 10] } else { &[0u64, 3, 6, 10] }),
        p_event: *g.pick(&[2u64, 6, 10]),
        p_yield: *g.pick(if dense { &[4u64, 9, 12] } else { &[0u64, 4, 9] }),
        p_when: *g.pick(&[0u64, 8, 16]),
        p_header: *g.pick(if dense { &[2u64, 3, 4] } else { &[0u64, 2, 4] }),
        p_remote: *g.pick(if dense { &[1u64, 2, 3] } else { &[0u64, 1, 3] }),
        p_explicit: *g.pick(&[0u64, 0, 2, 4]),
        p_deeper: *g.pick(if dense { &[14u64, 16, 16, 16] } else { &[8u64, 11, 14, 16] }),
        // (not drawn for the trace-context generator, whose trees stay what they were)
        p_plain: if cfg.traceparent { 0 } else { *g.pick(&[0u64, 2, 4]) },
        p_ending: *g.pick(&[0u64, 3, 5, 8]),
        p_catch: if cfg.traceparent { *g.pick(&[0u64, 2, 3, 5]) } else { *g.pick(&[0u64, 1, 2, 4]) },
        p_setup: if cfg.traceparent { *g.pick(&[0u64, 2, 4]) } else { 0 },
        p_cancel: *g.pick(if dense { &[2u64, 3, 4, 4] } else { &[0u64, 1, 2, 3] }),
    };
    let budget = 1 + g.below(cfg.max_nodes as u64) as u32;
    let mut gen = Gen {
        g,
        cfg,
        p,
        next_id: TOP,
        next_eid: 0,
        budget,
    };
    let steps = gen.steps(0, false, true, false);
    Node {
        id: TOP,
        enabled: false,
        is_async: false,
        variant: Variant::Top,
        steps,
        unwinds: false,
    }
}

// ---------------------------------------------------------------------------
// what a run of one tree observed
// ---------------------------------------------------------------------------

#[derive(Clone, Copy, Debug, PartialEq, Eq, Hash)]
pub enum Point {
    /// First / last statement of the node's body.
    Enter,
    Exit,
    /// In the node's body right before / after step `i` (a child or a group).
    Before(u16),
    After(u16),
    /// In the node's body after the yield of step `i` resumed.
    Resume(u16),
    /// Inside whatever the child of step `i` is run through (the captured frame on the other
    /// thread, the pushed props, the pushed header), right before / after the child.
    ViaIn(u16),
    ViaOut(u16),
    /// On the fresh thread of a `Remote` step, before the header is pushed / after it ended.
    RemoteTop(u16),
    RemoteEnd(u16),
    /// `TraceOnly { handoff: true }`: on the other thread, inside the frame captured within the
    /// pushed incoming frame, right before / after the child.
    HopIn(u16),
    HopOut(u16),
    /// Logged under the id of a `Travel::Deferred` node: right before / after its frame is entered,
    /// i.e. after the span it was created in has ended, in whatever context that span was run from.
    BeforeDeferred,
    AfterDeferred,
}

#[derive(Clone, Debug)]
pub struct Obs {
    pub node: u32,
    pub point: Point,
    pub ids: Ids,
    pub tp: Option<Tp>,
    pub thread: u64,
}

#[derive(Clone, Debug)]
pub struct SamplerCall {
    pub seen: Ids,
    pub decision: bool,
    pub thread: u64,
}

pub struct TreeCxInner {
    pub sink: Recorder,
    pub log: Mutex<Vec<Obs>>,
    /// (node, step) -> the header that was actually pushed there (Header / Remote vias)
    pub headers: Mutex<Vec<(u32, u16, Tp)>>,
    /// (node, step) -> order in which the members of the group were polled
    pub polls: Mutex<Vec<(u32, u16, Vec<u8>)>>,
    pub sampler_table: Vec<bool>,
    pub sampler_log: Mutex<Vec<SamplerCall>>,
    pub problems: Mutex<Vec<String>>,
    /// (node, step) -> did the child run under `catch_unwind` panic
    pub caught: Mutex<Vec<(u32, u16, bool)>>,
    /// Monitor-specific state of this run (C18: the script and log of the re-entrant components),
    /// reachable from user components through [`current_tree_cx`].
    pub ext: std::sync::OnceLock<Arc<dyn std::any::Any + Send + Sync>>,
}

/// The harness-side context of one tree run.
#[derive(Clone)]
pub struct TreeCx(pub Arc<TreeCxInner>);

impl TreeCx {
    pub fn new(sampler_table: Vec<bool>) -> TreeCx {
        TreeCx(Arc::new(TreeCxInner {
            sink: Recorder::new(),
            log: Mutex::new(Vec::new()),
            headers: Mutex::new(Vec::new()),
            polls: Mutex::new(Vec::new()),
            sampler_table,
            sampler_log: Mutex::new(Vec::new()),
            problems: Mutex::new(Vec::new()),
            caught: Mutex::new(Vec::new()),
            ext: std::sync::OnceLock::new(),
        }))
    }

    pub fn header_at(&self, node: u32, step: u16) -> Option<Tp> {
        self.0
            .headers
            .lock()
            .unwrap()
            .iter()
            .find(|(n, s, _)| *n == node && *s == step)
            .map(|(_, _, t)| *t)
    }
}

thread_local! {
    static CURRENT: RefCell<Option<TreeCx>> = const { RefCell::new(None) };
    static TID: Cell<u64> = const { Cell::new(0) };
}

static NEXT_TID: AtomicU64 = AtomicU64::new(1);

/// A small stable id for the calling thread.
pub fn tid() -> u64 {
    TID.with(|t| {
        if t.get() == 0 {
            t.set(NEXT_TID.fetch_add(1, Ordering::Relaxed));
        }
        t.get()
    })
}

/// Events emitted on a thread that is not running any tree (must stay empty).
pub static ORPHANS: LazyLock<Recorder> = LazyLock::new(Recorder::new);

/// Make `cx` the tree of the calling thread while `f` runs.
pub fn with_tree<R>(cx: &TreeCx, f: impl FnOnce() -> R) -> R {
    struct Restore(Option<TreeCx>);
    impl Drop for Restore {
        fn drop(&mut self) {
            let prev = self.0.take();
            let _ = CURRENT.try_with(|c| *c.borrow_mut() = prev);
        }
    }
    let prev = CURRENT.with(|c| c.borrow_mut().replace(cx.clone()));
    let _restore = Restore(prev);
    // (scripted panics cross threads; whatever panics is reported through the tree's result)
    vcommon::quiet(f)
}

fn current_tree() -> Option<TreeCx> {
    CURRENT.try_with(|c| c.borrow().clone()).ok().flatten()
}

/// The tree that is running on the calling thread (for user components of the runtime under test).
pub fn current_tree_cx() -> Option<TreeCx> {
    current_tree()
}

/// The emitter of every runtime under test: hands the event to the recorder of the tree that
/// is running on this thread.
pub struct Routed;

impl Emitter for Routed {
    fn emit<E: emit::event::ToEvent>(&self, evt: E) {
        match current_tree() {
            Some(cx) => cx.0.sink.emit(evt),
            None => ORPHANS.emit(evt),
        }
    }

    fn blocking_flush(&self, _: Duration) -> bool {
        true
    }
}

/// The sampler of the C18 runtimes: "decision for the k-th call in this tree", logging every call.
pub fn table_sampler(ctxt: &SpanCtxt) -> bool {
    match current_tree() {
        Some(cx) => {
            let mut log = cx.0.sampler_log.lock().unwrap();
            let k = log.len();
            let decision = if cx.0.sampler_table.is_empty() {
                true
            } else {
                cx.0.sampler_table[k % cx.0.sampler_table.len()]
            };
            log.push(SamplerCall {
                seen: Ids::of(ctxt),
                decision,
                thread: tid(),
            });
            decision
        }
        None => {
            // a sampler call outside any tree: keep it visible
            ORPHANS.emit(emit::evt!("sampler called outside a tree"));
            true
        }
    }
}

// ---------------------------------------------------------------------------
// the runtime under test
// ---------------------------------------------------------------------------

/// A `'static` runtime the interpreter is instantiated for.
pub trait Env: 'static {
    type E: Emitter + 'static;
    type F: Filter + 'static;
    type C: Ctxt + 'static;
    type T: Clock + 'static;
    type R: emit::Rng + 'static;

    const NAME: &'static str;
    /// Also observe `Traceparent::current()`.
    const TRACEPARENT: bool;

    fn rt() -> &'static Runtime<Self::E, Self::F, Self::C, Self::T, Self::R>;

    /// `Frame::current(ctxt).in_fn(f)`, boxed. Implemented per runtime (by `impl_env!`) because
    /// only the concrete frame type is known to be `Send`.
    fn in_current_frame<'a>(f: Box<dyn FnOnce() + Send + 'a>) -> Box<dyn FnOnce() + Send + 'a>;

    /// `Frame::push(ctxt, ("plain", 1)).in_fn(f)`, boxed: a non-span frame with props of its own.
    fn in_plain_frame<'a>(f: Box<dyn FnOnce() + Send + 'a>) -> Box<dyn FnOnce() + Send + 'a>;

    /// Create the `new_span!` pair of `node` here and run its body on a new thread inside
    /// `frame.in_fn(..)` (the guard travels with it).
    fn manual_on_thread(node: &Node, cx: &TreeCx);
}

/// Declare an [`Env`]: `impl_env!(Name, "label", traceparent?, [E, F, C, T, R], rt_expr);`
#[macro_export]
macro_rules! impl_env {
    ($name:ident, $label:expr, $tp:expr, [$E:ty, $F:ty, $C:ty, $T:ty, $R:ty], $rt:expr) => {
        pub struct $name;
        impl $crate::spantree::Env for $name {
            type E = $E;
            type F = $F;
            type C = $C;
            type T = $T;
            type R = $R;
            const NAME: &'static str = $label;
            const TRACEPARENT: bool = $tp;
            fn rt() -> &'static emit::runtime::Runtime<$E, $F, $C, $T, $R> {
                $rt
            }
            fn in_current_frame<'a>(f: Box<dyn FnOnce() + Send + 'a>) -> Box<dyn FnOnce() + Send + 'a> {
                Box::new(emit::Frame::current(Self::rt().ctxt()).in_fn(f))
            }
            fn in_plain_frame<'a>(f: Box<dyn FnOnce() + Send + 'a>) -> Box<dyn FnOnce() + Send + 'a> {
                Box::new(emit::Frame::push(Self::rt().ctxt(), ("plain", 1)).in_fn(f))
            }
            fn manual_on_thread(node: &$crate::spantree::Node, cx: &$crate::spantree::TreeCx) {
                let (guard, frame) = $crate::spantree::new_manual::<Self>(node);
                let f = frame.in_fn(move || $crate::spantree::with_tree(cx, || $crate::spantree::manual_body::<Self, _>(guard, node, cx)));
                std::thread::scope(|s| {
                    if let Err(p) = s.spawn(f).join() {
                        std::panic::resume_unwind(p);
                    }
                });
            }
        }
    };
}

// ---------------------------------------------------------------------------
// a context whose current props legitimately repeat keys
// ---------------------------------------------------------------------------

/// A small `Ctxt` that only implements `open_root` (an ordered list of owned key-values, nothing
/// de-duplicated) and relies on the trait's DEFAULT `open_push` = `open_root(props.and_props(current))`
/// and DEFAULT `open_disabled`. Its current props therefore repeat keys — one `trace_id` /
/// `span_id` / `span_parent` / `id` per nesting level — with the innermost value FIRST, which is
/// what the first-wins `Props` contract makes the effective one.
pub struct ListCtxt;

type ListItems = Arc<Vec<(emit::Str<'static>, emit::value::OwnedValue)>>;

#[derive(Clone)]
pub struct ListProps(ListItems);

thread_local! {
    static LIST_CURRENT: RefCell<ListProps> = RefCell::new(ListProps(Arc::new(Vec::new())));
}

impl emit::Props for ListProps {
    fn for_each<'kv, F: FnMut(emit::Str<'kv>, emit::Value<'kv>) -> std::ops::ControlFlow<()>>(
        &'kv self,
        mut for_each: F,
    ) -> std::ops::ControlFlow<()> {
        for (k, v) in self.0.iter() {
            for_each(k.by_ref(), v.by_ref())?;
        }
        std::ops::ControlFlow::Continue(())
    }
}

impl ListProps {
    pub fn len(&self) -> usize {
        self.0.len()
    }
}

impl Ctxt for ListCtxt {
    type Current = ListProps;
    type Frame = ListProps;

    fn open_root<P: emit::Props>(&self, props: P) -> ListProps {
        let mut items = Vec::new();
        let _ = props.for_each(|k, v| {
            items.push((k.to_shared(), v.to_shared()));
            std::ops::ControlFlow::Continue(())
        });
        ListProps(Arc::new(items))
    }

    fn enter(&self, frame: &mut ListProps) {
        LIST_CURRENT.with(|c| std::mem::swap(&mut *c.borrow_mut(), frame));
    }

    fn with_current<R, F: FnOnce(&ListProps) -> R>(&self, with: F) -> R {
        let current = LIST_CURRENT.with(|c| c.borrow().clone());
        with(&current)
    }

    fn exit(&self, frame: &mut ListProps) {
        LIST_CURRENT.with(|c| std::mem::swap(&mut *c.borrow_mut(), frame));
    }

    fn close(&self, _: ListProps) {}
}

/// How many key-values the list context of this thread currently holds (evidence only).
pub fn list_ctxt_len() -> usize {
    LIST_CURRENT.with(|c| c.borrow().len())
}

fn observe<X: Env>(cx: &TreeCx, node: u32, point: Point) {
    let ids = Ids::of(&SpanCtxt::current(X::rt().ctxt()));
    let tp = if X::TRACEPARENT {
        Some(Tp::of(&Traceparent::current()))
    } else {
        None
    };
    cx.0.log.lock().unwrap().push(Obs {
        node,
        point,
        ids,
        tp,
        thread: tid(),
    });
}

// ---------------------------------------------------------------------------
// mini executor
// ---------------------------------------------------------------------------

const POLL_BUDGET: u64 = 50_000_000;

/// Poll `f` to completion on this thread. Every `Pending` in the interpreter comes from a
/// future that is immediately ready to be polled again, so a plain loop is a fair executor.
pub fn block_on<F: Future>(f: F) -> F::Output {
    let mut f = std::pin::pin!(f);
    let mut cx = Context::from_waker(Waker::noop());
    let mut polls = 0u64;
    loop {
        if let Poll::Ready(v) = f.as_mut().poll(&mut cx) {
            return v;
        }
        polls += 1;
        if polls > POLL_BUDGET {
            panic!("spantree executor: poll budget exhausted");
        }
    }
}

/// Returns `Pending` once.
pub struct YieldNow(bool);

impl YieldNow {
    pub fn new() -> Self {
        YieldNow(false)
    }
}

impl Future for YieldNow {
    type Output = ();
    fn poll(mut self: Pin<&mut Self>, cx: &mut Context<'_>) -> Poll<()> {
        if self.0 {
            Poll::Ready(())
        } else {
            self.0 = true;
            cx.waker().wake_by_ref();
            Poll::Pending
        }
    }
}

type BoxFut<'a> = Pin<Box<dyn Future<Output = ()> + 'a>>;

/// Polls one seeded-random unfinished member per poll of itself.
struct JoinSeeded<'a> {
    futs: Vec<Option<BoxFut<'a>>>,
    g: Rng,
    order: Vec<u8>,
}

impl<'a> Future for JoinSeeded<'a> {
    type Output = Vec<u8>;
    fn poll(mut self: Pin<&mut Self>, cx: &mut Context<'_>) -> Poll<Vec<u8>> {
        let this = &mut *self;
        let live: Vec<usize> = (0..this.futs.len()).filter(|i| this.futs[*i].is_some()).collect();
        if live.is_empty() {
            return Poll::Ready(std::mem::take(&mut this.order));
        }
        let pick = live[this.g.usize(live.len())];
        this.order.push(pick as u8);
        let done = this.futs[pick].as_mut().unwrap().as_mut().poll(cx).is_ready();
        if done {
            this.futs[pick] = None;
            if live.len() == 1 {
                return Poll::Ready(std::mem::take(&mut this.order));
            }
        }
        cx.waker().wake_by_ref();
        Poll::Pending
    }
}

// ---------------------------------------------------------------------------
// the interpreter
// ---------------------------------------------------------------------------

// --- the span functions: these are the code under test's macros -------------

#[emit::span(rt: *X::rt(), when: emit::filter::from_fn(move |_| en), "node {id}", id)]
fn span_sync_when<X: Env>(id: u32, en: bool, node: &Node, cx: &TreeCx) {
    body_sync::<X>(node, cx)
}

#[emit::span(rt: *X::rt(), "node {id}", id, en)]
fn span_sync_rt<X: Env>(id: u32, en: bool, node: &Node, cx: &TreeCx) {
    body_sync::<X>(node, cx)
}

#[emit::span(rt: *X::rt(), "node {id}", id, en, trace_id: tid)]
fn span_sync_tid<X: Env>(id: u32, en: bool, tid: TraceId, node: &Node, cx: &TreeCx) {
    body_sync::<X>(node, cx)
}

#[emit::span(rt: *X::rt(), when: emit::filter::from_fn(move |_| en), "node {id}", id)]
async fn span_async_when<X: Env>(id: u32, en: bool, node: &Node, cx: &TreeCx) {
    body_async::<X>(node, cx).await
}

#[emit::span(rt: *X::rt(), "node {id}", id, en)]
async fn span_async_rt<X: Env>(id: u32, en: bool, node: &Node, cx: &TreeCx) {
    body_async::<X>(node, cx).await
}

#[emit::span(rt: *X::rt(), "node {id}", id, en, trace_id: tid)]
async fn span_async_tid<X: Env>(id: u32, en: bool, tid: TraceId, node: &Node, cx: &TreeCx) {
    body_async::<X>(node, cx).await
}

#[derive(Debug)]
pub struct NodeErr;

impl std::fmt::Display for NodeErr {
    fn fmt(&self, f: &mut std::fmt::Formatter) -> std::fmt::Result {
        f.write_str("scripted failure")
    }
}

impl std::error::Error for NodeErr {}

#[emit::span(rt: *X::rt(), ok_lvl: emit::Level::Info, err_lvl: "warn", "node {id}", id, en)]
fn span_sync_result<X: Env>(id: u32, en: bool, fail: bool, node: &Node, cx: &TreeCx) -> Result<(), NodeErr> {
    body_sync::<X>(node, cx);
    if fail {
        return Err(NodeErr);
    }
    Ok(())
}

#[emit::span(rt: *X::rt(), ok_lvl: emit::Level::Info, err_lvl: "warn", "node {id}", id, en)]
async fn span_async_result<X: Env>(id: u32, en: bool, fail: bool, node: &Node, cx: &TreeCx) -> Result<(), NodeErr> {
    body_async::<X>(node, cx).await;
    if fail {
        Err(NodeErr)?;
    }
    Ok(())
}

#[emit::span(rt: *X::rt(), guard: g, "node {id}", id, en)]
fn span_sync_guard<X: Env>(id: u32, en: bool, end: &GuardEnd, node: &Node, cx: &TreeCx) {
    body_sync::<X>(node, cx);
    match end {
        GuardEnd::Complete => {
            g.complete();
        }
        GuardEnd::CompleteWith => {
            g.complete_with(emit::span::completion::default(X::rt().emitter(), X::rt().ctxt()));
        }
    }
}

#[emit::span(rt: *X::rt(), guard: g, "node {id}", id, en)]
async fn span_async_guard<X: Env>(id: u32, en: bool, end: &GuardEnd, node: &Node, cx: &TreeCx) {
    body_async::<X>(node, cx).await;
    match end {
        GuardEnd::Complete => {
            g.complete();
        }
        GuardEnd::CompleteWith => {
            g.complete_with(emit::span::completion::default(X::rt().emitter(), X::rt().ctxt()));
        }
    }
}

// --- `setup:` ------------------------------------------------------------------------

/// What a `setup:` fn returns: an incoming traceparent pushed AND entered, exited on drop.
pub struct EnteredHeader {
    ctxt: emit_traceparent::TraceparentCtxt,
    frame: Option<emit_traceparent::TraceparentCtxtFrame>,
}

impl Drop for EnteredHeader {
    fn drop(&mut self) {
        if let Some(mut frame) = self.frame.take() {
            self.ctxt.exit(&mut frame);
            self.ctxt.close(frame);
        }
    }
}

/// The `setup` of a `Variant::Setup` node.
pub fn node_setup(node: &Node, cx: &TreeCx) -> Option<EnteredHeader> {
    match &node.variant {
        Variant::Setup { header: Some(spec), .. } => {
            let tp = build_header(spec);
            cx.0.headers.lock().unwrap().push((node.id, u16::MAX, tp));
            let (ctxt, mut frame) = tp.to_traceparent().push().into_parts();
            ctxt.enter(&mut frame);
            Some(EnteredHeader {
                ctxt,
                frame: Some(frame),
            })
        }
        // a guard that touches no ambient state
        _ => None,
    }
}

#[emit::span(rt: *X::rt(), setup: (|| node_setup(node, cx)), "node {id}", id, en)]
fn span_sync_setup<X: Env>(id: u32, en: bool, node: &Node, cx: &TreeCx) {
    body_sync::<X>(node, cx)
}

#[emit::info_span(rt: *X::rt(), setup: (|| node_setup(node, cx)), "node {id}", id, en)]
fn span_sync_setup_info<X: Env>(id: u32, en: bool, node: &Node, cx: &TreeCx) {
    body_sync::<X>(node, cx)
}

#[emit::span(rt: *X::rt(), setup: (|| node_setup(node, cx)), "node {id}", id, en)]
async fn span_async_setup<X: Env>(id: u32, en: bool, node: &Node, cx: &TreeCx) {
    body_async::<X>(node, cx).await
}

#[emit::warn_span(rt: *X::rt(), setup: (|| node_setup(node, cx)), "node {id}", id, en)]
async fn span_async_setup_warn<X: Env>(id: u32, en: bool, node: &Node, cx: &TreeCx) {
    body_async::<X>(node, cx).await
}

// --- `new_span!` pairs whose frame is entered away from where it was created -------

/// `emit::new_span!` for a `Variant::Manual` node, evaluated right here.
pub fn new_manual<X: Env>(
    node: &Node,
) -> (
    emit::span::SpanGuard<'static, &'static X::T, emit::Empty, impl emit::span::Completion + 'static>,
    Frame<&'static X::C>,
) {
    let (id, en) = (node.id, node.enabled);
    match &node.variant {
        Variant::Manual { when: true, .. } => {
            emit::new_span!(rt: *X::rt(), when: emit::filter::from_fn(move |_| en), "node {id}", id)
        }
        _ => emit::new_span!(rt: *X::rt(), "node {id}", id, en),
    }
}

/// What runs inside the frame of a manual pair: start, body, end.
pub fn manual_body<X: Env, S: emit::span::Completion>(
    mut guard: emit::span::SpanGuard<'static, &'static X::T, emit::Empty, S>,
    node: &Node,
    cx: &TreeCx,
) {
    guard.start();
    if node.is_async {
        block_on(body_async::<X>(node, cx));
    } else {
        body_sync::<X>(node, cx);
    }
    end_manual::<X, S>(guard, node);
}

fn end_manual<X: Env, S: emit::span::Completion>(guard: emit::span::SpanGuard<'static, &'static X::T, emit::Empty, S>, node: &Node) {
    match &node.variant {
        Variant::Manual { complete_with: true, .. } => {
            guard.complete_with(emit::span::completion::default(X::rt().emitter(), X::rt().ctxt()));
        }
        _ => drop(guard),
    }
}

type DeferredFn = Box<dyn for<'x> FnOnce(&'x Node, &'x TreeCx)>;

thread_local! {
    /// `Travel::Deferred` pairs created by the body that is running on this thread, by node id.
    static DEFERRED: RefCell<Vec<(u32, DeferredFn)>> = const { RefCell::new(Vec::new()) };
}

fn defer_manual<X: Env>(node: &Node) {
    let (guard, frame) = new_manual::<X>(node);
    let run: DeferredFn = Box::new(move |node, cx| frame.call(move || manual_body::<X, _>(guard, node, cx)));
    DEFERRED.with(|d| d.borrow_mut().push((node.id, run)));
}

/// Enter the deferred frames created inside `parent`'s body, now that `parent` has ended.
fn run_deferred<X: Env>(parent: &Node, cx: &TreeCx) {
    for child in parent.children() {
        if !matches!(
            child.variant,
            Variant::Manual {
                travel: Travel::Deferred,
                ..
            }
        ) {
            continue;
        }
        let found = DEFERRED.with(|d| {
            let mut d = d.borrow_mut();
            d.iter().position(|(id, _)| *id == child.id).map(|p| d.remove(p).1)
        });
        match found {
            Some(run) => {
                observe::<X>(cx, child.id, Point::BeforeDeferred);
                run(child, cx);
                observe::<X>(cx, child.id, Point::AfterDeferred);
            }
            // (the parent's body unwound before it got there)
            None => {}
        }
    }
}

/// Run a node to completion on this thread (async nodes under a nested `block_on`).
pub fn run_node<X: Env>(node: &Node, cx: &TreeCx) {
    if node.is_async {
        block_on(run_async::<X>(node, cx))
    } else {
        run_sync::<X>(node, cx);
        run_deferred::<X>(node, cx);
    }
}

fn run_sync<X: Env>(node: &Node, cx: &TreeCx) {
    match &node.variant {
        Variant::Top => body_sync::<X>(node, cx),
        Variant::When => span_sync_when::<X>(node.id, node.enabled, node, cx),
        Variant::RtFilter => span_sync_rt::<X>(node.id, node.enabled, node, cx),
        Variant::ExplicitTrace(t) => span_sync_tid::<X>(
            node.id,
            node.enabled,
            TraceId::from_u128(*t).expect("non-zero"),
            node,
            cx,
        ),
        Variant::ResultAware { fail } => {
            let _ = span_sync_result::<X>(node.id, node.enabled, *fail, node, cx);
        }
        Variant::Guard(end) => span_sync_guard::<X>(node.id, node.enabled, end, node, cx),
        Variant::Setup { level: 0, .. } => span_sync_setup::<X>(node.id, node.enabled, node, cx),
        Variant::Setup { .. } => span_sync_setup_info::<X>(node.id, node.enabled, node, cx),
        Variant::Manual { travel, .. } => match travel {
            Travel::Here | Travel::Task => {
                let (guard, frame) = new_manual::<X>(node);
                frame.call(move || manual_body::<X, _>(guard, node, cx))
            }
            Travel::Thread => X::manual_on_thread(node, cx),
            // entered by whoever ran the parent, once the parent has ended (`run_deferred`)
            Travel::Deferred => defer_manual::<X>(node),
        },
    }
}

fn run_async<'a, X: Env>(node: &'a Node, cx: &'a TreeCx) -> BoxFut<'a> {
    // a task made from a `new_span!` pair: created now, polled whenever the caller gets to it
    if let Variant::Manual { travel: Travel::Task, .. } = &node.variant {
        let (mut guard, frame) = new_manual::<X>(node);
        let task = frame.in_future(async move {
            guard.start();
            body_async::<X>(node, cx).await;
            end_manual::<X, _>(guard, node);
        });
        return Box::pin(async move {
            task.await;
            run_deferred::<X>(node, cx);
        });
    }
    Box::pin(async move {
        match &node.variant {
            Variant::ResultAware { fail } => {
                let _ = span_async_result::<X>(node.id, node.enabled, *fail, node, cx).await;
            }
            Variant::Guard(end) => span_async_guard::<X>(node.id, node.enabled, end, node, cx).await,
            Variant::Setup { level: 0, .. } => span_async_setup::<X>(node.id, node.enabled, node, cx).await,
            Variant::Setup { .. } => span_async_setup_warn::<X>(node.id, node.enabled, node, cx).await,
            // (their bodies run under a nested `block_on` inside the frame)
            Variant::Manual { .. } => run_sync::<X>(node, cx),
            Variant::Top => body_async::<X>(node, cx).await,
            Variant::When => span_async_when::<X>(node.id, node.enabled, node, cx).await,
            Variant::RtFilter => span_async_rt::<X>(node.id, node.enabled, node, cx).await,
            Variant::ExplicitTrace(t) => {
                span_async_tid::<X>(
                    node.id,
                    node.enabled,
                    TraceId::from_u128(*t).expect("non-zero"),
                    node,
                    cx,
                )
                .await
            }
        }
        run_deferred::<X>(node, cx);
    })
}

/// A future for any node: async nodes as themselves, sync nodes run inside one poll.
fn run_any_async<'a, X: Env>(node: &'a Node, cx: &'a TreeCx) -> BoxFut<'a> {
    if node.is_async {
        run_async::<X>(node, cx)
    } else {
        Box::pin(async move {
            run_sync::<X>(node, cx);
            run_deferred::<X>(node, cx);
        })
    }
}

fn emit_event<X: Env>(eid: u32) {
    emit::info!(rt: *X::rt(), "event {eid}", eid);
}

fn push_props<X: Env>(trace: u128, span: u64, parent: Option<u64>, form: &IdForm) -> Frame<&'static X::C> {
    let ctxt = X::rt().ctxt();
    match form {
        IdForm::Typed => {
            let trace_id = TraceId::from_u128(trace).expect("non-zero");
            let span_id = SpanId::from_u64(span).expect("non-zero");
            let span_parent = parent.and_then(SpanId::from_u64);
            Frame::push(ctxt, emit::props! { trace_id, span_id, span_parent })
        }
        IdForm::HexLower => {
            let (t, s, p) = (format!("{:032x}", trace), format!("{:016x}", span), parent.map(|p| format!("{:016x}", p)));
            let (trace_id, span_id, span_parent): (&str, &str, Option<&str>) = (&t, &s, p.as_deref());
            Frame::push(ctxt, emit::props! { trace_id, span_id, span_parent })
        }
        IdForm::HexUpper => {
            let (t, s, p) = (format!("{:032X}", trace), format!("{:016X}", span), parent.map(|p| format!("{:016X}", p)));
            let (trace_id, span_id, span_parent): (&str, &str, Option<&str>) = (&t, &s, p.as_deref());
            Frame::push(ctxt, emit::props! { trace_id, span_id, span_parent })
        }
        IdForm::Int => {
            let trace_id = trace;
            let span_id = span;
            let span_parent = parent;
            Frame::push(ctxt, emit::props! { trace_id, span_id, span_parent })
        }
    }
}

fn push_trace_only<X: Env>(trace: u128, how: &TraceOnly) -> Frame<&'static X::C> {
    let ctxt = X::rt().ctxt();
    let typed = TraceId::from_u128(trace).expect("non-zero");
    match how {
        TraceOnly::SpanCtxtPush => SpanCtxt::new(Some(typed), None, None).push(ctxt),
        TraceOnly::Typed => {
            let trace_id = typed;
            Frame::push(ctxt, emit::props! { trace_id })
        }
        TraceOnly::HexLower => {
            let t = format!("{:032x}", trace);
            let trace_id: &str = &t;
            Frame::push(ctxt, emit::props! { trace_id })
        }
        TraceOnly::HexUpper => {
            let t = format!("{:032X}", trace);
            let trace_id: &str = &t;
            Frame::push(ctxt, emit::props! { trace_id })
        }
        TraceOnly::Int => {
            let trace_id = trace;
            Frame::push(ctxt, emit::props! { trace_id })
        }
        TraceOnly::TypedZeroSpanText => {
            let trace_id = typed;
            let span_id = "0000000000000000";
            Frame::push(ctxt, emit::props! { trace_id, span_id })
        }
        TraceOnly::HexGarbageSpanText => {
            let t = format!("{:032x}", trace);
            let trace_id: &str = &t;
            let span_id = "not-a-span-id";
            Frame::push(ctxt, emit::props! { trace_id, span_id })
        }
        TraceOnly::IntZeroSpanInt => {
            let trace_id = trace;
            let span_id = 0u64;
            Frame::push(ctxt, emit::props! { trace_id, span_id })
        }
    }
}

fn build_header(spec: &HeaderSpec) -> Tp {
    match spec {
        HeaderSpec::Fresh { trace, span, flags } => Tp {
            trace: Some(*trace),
            span: Some(*span),
            flags: *flags,
        },
        HeaderSpec::Invalid { flags, trace, span } => Tp {
            trace: *trace,
            span: *span,
            flags: *flags,
        },
        HeaderSpec::SameTrace { span, flags } => {
            let cur = Tp::of(&Traceparent::current());
            Tp {
                trace: cur.trace,
                span: Some(*span),
                flags: flags.unwrap_or(cur.flags),
            }
        }
    }
}

fn push_header(cx: &TreeCx, at: (u32, u16), spec: &HeaderSpec, with_state: bool) -> Frame<emit_traceparent::TraceparentCtxt> {
    let tp = build_header(spec);
    cx.0.headers.lock().unwrap().push((at.0, at.1, tp));
    if with_state {
        emit_traceparent::push(tp.to_traceparent(), Tracestate::new_raw("vendor=verif"))
    } else {
        tp.to_traceparent().push()
    }
}

/// Run `child` of step `i` of node `parent` through `via`, blocking until it is done.
fn run_via_blocking<X: Env>(parent: u32, i: u16, child: &Node, via: &Via, cx: &TreeCx) {
    match via {
        Via::Direct => run_node::<X>(child, cx),
        Via::Thread => {
            let f = X::in_current_frame(Box::new(move || {
                with_tree(cx, || {
                    observe::<X>(cx, parent, Point::ViaIn(i));
                    run_node::<X>(child, cx);
                    observe::<X>(cx, parent, Point::ViaOut(i));
                })
            }));
            std::thread::scope(|s| {
                if let Err(p) = s.spawn(f).join() {
                    std::panic::resume_unwind(p);
                }
            });
        }
        Via::Plain { how } => match how {
            PlainHow::Thread => {
                let f = X::in_plain_frame(Box::new(move || {
                    with_tree(cx, || {
                        observe::<X>(cx, parent, Point::ViaIn(i));
                        run_node::<X>(child, cx);
                        observe::<X>(cx, parent, Point::ViaOut(i));
                    })
                }));
                std::thread::scope(|s| {
                    if let Err(p) = s.spawn(f).join() {
                        std::panic::resume_unwind(p);
                    }
                });
            }
            // (a sync parent has no task to hand the future to: it runs it to completion here)
            PlainHow::Call | PlainHow::Future => {
                Frame::push(X::rt().ctxt(), ("plain", 1)).call(|| {
                    observe::<X>(cx, parent, Point::ViaIn(i));
                    run_node::<X>(child, cx);
                    observe::<X>(cx, parent, Point::ViaOut(i));
                });
            }
        },
        Via::Catch => {
            let r = vcommon::catch(|| run_node::<X>(child, cx));
            cx.0.caught.lock().unwrap().push((parent, i, r.is_err()));
        }
        Via::Cancel { polls } => {
            let mut fut = run_any_async::<X>(child, cx);
            let mut waker_cx = Context::from_waker(Waker::noop());
            let mut finished = false;
            for _ in 0..*polls {
                if fut.as_mut().poll(&mut waker_cx).is_ready() {
                    finished = true;
                    break;
                }
            }
            // the cancellation: every frame of the chain is dropped while suspended
            drop(fut);
            cx.0.caught.lock().unwrap().push((parent, i, finished));
        }
        Via::Props { trace, span, parent: p, form } => {
            push_props::<X>(*trace, *span, *p, form).call(|| {
                observe::<X>(cx, parent, Point::ViaIn(i));
                run_node::<X>(child, cx);
                observe::<X>(cx, parent, Point::ViaOut(i));
            });
        }
        Via::TraceOnly { trace, how, handoff } => {
            push_trace_only::<X>(*trace, how).call(|| {
                observe::<X>(cx, parent, Point::ViaIn(i));
                if *handoff {
                    let f = X::in_current_frame(Box::new(move || {
                        with_tree(cx, || {
                            observe::<X>(cx, parent, Point::HopIn(i));
                            run_node::<X>(child, cx);
                            observe::<X>(cx, parent, Point::HopOut(i));
                        })
                    }));
                    std::thread::scope(|s| {
                        if let Err(p) = s.spawn(f).join() {
                            std::panic::resume_unwind(p);
                        }
                    });
                } else {
                    run_node::<X>(child, cx);
                }
                observe::<X>(cx, parent, Point::ViaOut(i));
            });
        }
        Via::Header { spec, with_state } => {
            push_header(cx, (parent, i), spec, *with_state).call(|| {
                observe::<X>(cx, parent, Point::ViaIn(i));
                run_node::<X>(child, cx);
                observe::<X>(cx, parent, Point::ViaOut(i));
            });
        }
        Via::Remote => {
            // what an outgoing request would carry
            let header = Traceparent::current().to_string();
            std::thread::scope(|s| {
                let r = s
                    .spawn(|| {
                        with_tree(cx, || {
                            observe::<X>(cx, parent, Point::RemoteTop(i));
                            match Traceparent::try_from_str(&header) {
                                Ok(tp) => {
                                    cx.0.headers.lock().unwrap().push((parent, i, Tp::of(&tp)));
                                    tp.push().call(|| {
                                        observe::<X>(cx, parent, Point::ViaIn(i));
                                        run_node::<X>(child, cx);
                                        observe::<X>(cx, parent, Point::ViaOut(i));
                                    });
                                }
                                Err(e) => cx.0.problems.lock().unwrap().push(format!(
                                    "header {:?} formatted from the current traceparent does not parse: {}",
                                    header, e
                                )),
                            }
                            observe::<X>(cx, parent, Point::RemoteEnd(i));
                        })
                    })
                    .join();
                if let Err(p) = r {
                    std::panic::resume_unwind(p);
                }
            });
        }
    }
}

/// Did member `k` of a group with schedule `sched` get wrapped in a captured `Frame::current`?
pub fn member_is_wrapped(sched: u64, k: usize) -> bool {
    (sched >> (40 + (k % 16))) & 1 == 1
}

/// The futures of a group. Some members (chosen by bits of the schedule) are handed over the way
/// a task is handed to an executor: inside a `Frame::current(ctxt)` captured here, i.e. a
/// non-span frame that is entered and exited on every poll.
fn group_members<'a, X: Env>(nodes: &'a [Node], sched: u64, cx: &'a TreeCx) -> Vec<Option<BoxFut<'a>>> {
    nodes
        .iter()
        .enumerate()
        .map(|(k, n)| {
            let fut = run_any_async::<X>(n, cx);
            if member_is_wrapped(sched, k) {
                Some(Box::pin(Frame::current(X::rt().ctxt()).in_future(fut)) as BoxFut<'a>)
            } else {
                Some(fut)
            }
        })
        .collect()
}

fn body_sync<X: Env>(node: &Node, cx: &TreeCx) {
    observe::<X>(cx, node.id, Point::Enter);
    for (i, step) in node.steps.iter().enumerate() {
        let i = i as u16;
        match step {
            Step::Event(eid) => emit_event::<X>(*eid),
            Step::Panic => panic!("spantree: scripted panic in node {}", node.id),
            Step::Yield => {}
            Step::Child { node: child, via } => {
                observe::<X>(cx, node.id, Point::Before(i));
                run_via_blocking::<X>(node.id, i, child, via, cx);
                observe::<X>(cx, node.id, Point::After(i));
            }
            Step::Group { nodes, sched } => {
                observe::<X>(cx, node.id, Point::Before(i));
                let order = block_on(JoinSeeded {
                    futs: group_members::<X>(nodes, *sched, cx),
                    g: Rng::new(*sched),
                    order: Vec::new(),
                });
                cx.0.polls.lock().unwrap().push((node.id, i, order));
                observe::<X>(cx, node.id, Point::After(i));
            }
        }
    }
    observe::<X>(cx, node.id, Point::Exit);
}

async fn body_async<X: Env>(node: &Node, cx: &TreeCx) {
    observe::<X>(cx, node.id, Point::Enter);
    for (i, step) in node.steps.iter().enumerate() {
        let i = i as u16;
        match step {
            Step::Event(eid) => emit_event::<X>(*eid),
            Step::Panic => panic!("spantree: scripted panic in node {}", node.id),
            Step::Yield => {
                YieldNow::new().await;
                observe::<X>(cx, node.id, Point::Resume(i));
            }
            Step::Child { node: child, via } => {
                observe::<X>(cx, node.id, Point::Before(i));
                match via {
                    // stay inside this task, so siblings of this node can interleave with the child
                    Via::Direct => run_any_async::<X>(child, cx).await,
                    Via::Plain { how: PlainHow::Future } => {
                        Frame::push(X::rt().ctxt(), ("plain", 1))
                            .in_future(async {
                                observe::<X>(cx, node.id, Point::ViaIn(i));
                                run_any_async::<X>(child, cx).await;
                                observe::<X>(cx, node.id, Point::ViaOut(i));
                            })
                            .await
                    }
                    Via::Props { trace, span, parent: p, form } => {
                        push_props::<X>(*trace, *span, *p, form)
                            .in_future(async {
                                observe::<X>(cx, node.id, Point::ViaIn(i));
                                run_any_async::<X>(child, cx).await;
                                observe::<X>(cx, node.id, Point::ViaOut(i));
                            })
                            .await
                    }
                    Via::Header { spec, with_state } => {
                        push_header(cx, (node.id, i), spec, *with_state)
                            .in_future(async {
                                observe::<X>(cx, node.id, Point::ViaIn(i));
                                run_any_async::<X>(child, cx).await;
                                observe::<X>(cx, node.id, Point::ViaOut(i));
                            })
                            .await
                    }
                    Via::Thread | Via::Remote | Via::TraceOnly { .. } | Via::Plain { .. } | Via::Catch | Via::Cancel { .. } => {
                        run_via_blocking::<X>(node.id, i, child, via, cx)
                    }
                }
                observe::<X>(cx, node.id, Point::After(i));
            }
            Step::Group { nodes, sched } => {
                observe::<X>(cx, node.id, Point::Before(i));
                let order = JoinSeeded {
                    futs: group_members::<X>(nodes, *sched, cx),
                    g: Rng::new(*sched),
                    order: Vec::new(),
                }
                .await;
                cx.0.polls.lock().unwrap().push((node.id, i, order));
                observe::<X>(cx, node.id, Point::After(i));
            }
        }
    }
    observe::<X>(cx, node.id, Point::Exit);
}

// ---------------------------------------------------------------------------
// running a whole tree
// ---------------------------------------------------------------------------

pub struct TreeRun {
    pub events: Vec<Captured>,
    pub log: Vec<Obs>,
    pub headers: Vec<(u32, u16, Tp)>,
    pub polls: Vec<(u32, u16, Vec<u8>)>,
    pub sampler_log: Vec<SamplerCall>,
    pub problems: Vec<String>,
    pub caught: Vec<(u32, u16, bool)>,
    /// panic message if the interpreter (i.e. the code under test) panicked
    pub panicked: Option<String>,
    pub main_thread: u64,
}

/// Execute `top` on a fresh thread (so every tree starts from pristine thread-locals).
pub fn run_tree<X: Env>(top: &Node, sampler_table: Vec<bool>) -> TreeRun {
    run_tree_ext::<X>(top, sampler_table, None)
}

/// [`run_tree`] with monitor-specific state attached to the run ([`TreeCxInner::ext`]).
pub fn run_tree_ext<X: Env>(top: &Node, sampler_table: Vec<bool>, ext: Option<Arc<dyn std::any::Any + Send + Sync>>) -> TreeRun {
    let cx = TreeCx::new(sampler_table);
    if let Some(ext) = ext {
        let _ = cx.0.ext.set(ext);
    }
    let mut main_thread = 0;
    let panicked = std::thread::scope(|s| {
        let h = s.spawn(|| {
            let t = tid();
            let r = vcommon::catch(|| with_tree(&cx, || run_node::<X>(top, &cx)));
            (t, r)
        });
        match h.join() {
            Ok((t, r)) => {
                main_thread = t;
                r.err()
            }
            Err(p) => Some(vcommon::panic_message(&p)),
        }
    });
    let inner = &cx.0;
    let run = TreeRun {
        events: inner.sink.take(),
        log: std::mem::take(&mut *inner.log.lock().unwrap()),
        headers: std::mem::take(&mut *inner.headers.lock().unwrap()),
        polls: std::mem::take(&mut *inner.polls.lock().unwrap()),
        sampler_log: std::mem::take(&mut *inner.sampler_log.lock().unwrap()),
        problems: std::mem::take(&mut *inner.problems.lock().unwrap()),
        caught: std::mem::take(&mut *inner.caught.lock().unwrap()),
        panicked,
        main_thread,
    };
    run
}

// ---------------------------------------------------------------------------
// helpers for the oracles
// ---------------------------------------------------------------------------

/// A recorded event reduced to what the oracles look at.
#[derive(Clone, Debug)]
pub struct Seen {
    pub is_span: bool,
    /// `id` property (node id) / `eid` property (event id)
    pub node: Option<u32>,
    pub eid: Option<u32>,
    pub trace: Option<String>,
    pub span: Option<String>,
    pub parent: Option<String>,
    pub raw: Captured,
}

pub fn seen(c: &Captured) -> Seen {
    Seen {
        is_span: c.get("evt_kind") == Some("span"),
        node: c.get("id").and_then(|v| v.parse().ok()),
        eid: c.get("eid").and_then(|v| v.parse().ok()),
        trace: c.get("trace_id").map(|s| s.to_string()),
        span: c.get("span_id").map(|s| s.to_string()),
        parent: c.get("span_parent").map(|s| s.to_string()),
        raw: c.clone(),
    }
}

pub fn hex_trace(t: u128) -> String {
    format!("{:032x}", t)
}

pub fn hex_span(s: u64) -> String {
    format!("{:016x}", s)
}

/// Did the members of a group actually interleave (some member polled again after another one ran)?
pub fn interleaved(order: &[u8]) -> bool {
    let mut seen_then_left: Vec<u8> = Vec::new();
    let mut last: Option<u8> = None;
    for &m in order {
        if Some(m) != last {
            if seen_then_left.contains(&m) {
                return true;
            }
            if let Some(l) = last {
                seen_then_left.push(l);
            }
            last = Some(m);
        }
    }
    false
}
