/*!
C17, `lvl` occurring more than once in an `and_props` chain that is NOT type-erased.

The level of an event is its `lvl` property, and of a key that occurs more than once the FIRST
value is the event's value (`Props::get` / `pull`: "If the key appears multiple times, the first
value seen should be returned"; C02). The statement's or-chain is "the level parsed from that
value, else the configured default, else Info": an unreadable first `lvl` leaves the event
without a level - it does not make a later, shadowed `lvl` the event's level.

The other sections of the monitor hand the filters ONE `lvl` in a flat list. Here the event's
properties are what `emit_core::emit` and the macros really build: own props `.and_props(base)`
`.and_props(ambient)` - `And<A, B>` nested two or three deep, left- and right-nested, by reference
and by value - whose members are `Option`s, arrays, slices, `BTreeMap`s and macro-built
(`emit::props!`) sets, with `lvl` in one, two or three of them:

* first unreadable ("fatal", "trace", "", "3", 3, a bool, a float, null; for `u8` filters text,
  bools, out-of-range numbers) and a later one readable - the shadowed value must not decide;
* first readable, later unreadable or different; all unreadable; the first occurrence only in the
  right member; no `lvl` at all.

Every chain is answered by `min_filter`, `MinLevelFilter` with a default, `MinLevelFilter<u8>`
with and without a default, `MinLevelPathMap` and `MinLevelPathMap<u8>` (registered module,
descendant of a registered module, map default) through the GENERIC path (`filter.matches(&evt)`
with the concrete `And<..>` type), through `&dyn ErasedFilter`, an erased event and erased props,
through a real `Runtime::emit` with the third member buffered in a `ThreadLocalCtxt` frame, and
through `emit::emit!` / `emit::evt!` call sites with `props:` base properties.
*/

use super::*;

use std::cell::{Cell, RefCell};
use std::collections::BTreeMap;

use emit::{props::ErasedProps, runtime::Runtime, Frame};

static SLEVELS: [Level; 4] = [Level::Debug, Level::Info, Level::Warn, Level::Error];

/// A value under the key `lvl` (or under a decoy key).
#[derive(Clone, Debug, PartialEq, Eq, Hash)]
pub enum V {
    Typed(usize),
    Text(&'static str, usize),
    OwnedText(String, usize),
    Int(i64),
    U8(u8),
    /// text no reading makes a level or a number of: "fatal", "trace", "", "3"
    Word(&'static str),
    Bool(bool),
    /// the float n + 0.5
    Float(i32),
    Null,
}

impl V {
    /// What a `Level` filter reads: `Some(level)` or nothing.
    fn level(&self) -> Option<usize> {
        match self {
            V::Typed(l) | V::Text(_, l) | V::OwnedText(_, l) => Some(*l),
            _ => None,
        }
    }

    /// What a `u8` filter reads: `Some(Some(n))`, `Some(None)` = nothing, `None` = the statement
    /// does not say (a typed `emit::Level` handed to a numeric filter).
    fn int(&self) -> Option<Option<u8>> {
        match self {
            V::Int(n) if (0..=255).contains(n) => Some(Some(*n as u8)),
            V::U8(n) => Some(Some(*n)),
            V::Typed(_) => None,
            _ => Some(None),
        }
    }

    fn value(&self) -> Value<'_> {
        match self {
            V::Typed(l) => Value::from_any(&SLEVELS[*l]),
            V::Text(s, _) | V::Word(s) => Value::from(*s),
            V::OwnedText(s, _) => Value::from(s),
            V::Int(n) => Value::from(*n),
            V::U8(n) => Value::from(*n),
            V::Bool(b) => Value::from(*b),
            V::Float(n) => Value::from(*n as f64 + 0.5),
            V::Null => Value::null(),
        }
    }
}

const UNREADABLE_FOR_LEVEL: [V; 10] = [
    V::Word("fatal"),
    V::Word("trace"),
    V::Int(3),
    V::Word(""),
    V::Bool(true),
    V::Bool(false),
    V::Word("3"),
    V::Float(2),
    V::Null,
    V::U8(2),
];

const UNREADABLE_FOR_U8: [V; 8] = [V::Word("fatal"), V::Text("error", 3), V::Word(""), V::Bool(true), V::Int(300), V::Int(-1), V::Float(4), V::Null];

const LEVEL_TEXTS: [(&str, usize); 10] = [("debug", 0), ("DBG", 0), ("info", 1), ("Information", 1), ("warn", 2), ("WRN", 2), ("warning(3)", 2), ("error", 3), ("ERR", 3), ("e", 3)];

fn gen_readable_level(g: &mut Rng) -> V {
    match g.below(4) {
        0 => V::Typed(g.usize(4)),
        1 => {
            let (s, l) = *g.pick(&LEVEL_TEXTS);
            V::OwnedText(s.to_string(), l)
        }
        _ => {
            let (s, l) = *g.pick(&LEVEL_TEXTS);
            V::Text(s, l)
        }
    }
}

fn gen_v(g: &mut Rng, first: bool) -> V {
    // the first occurrence is unreadable for the Level filters half of the time, later ones mostly readable
    let unreadable_for_level = if first { g.chance(1, 2) } else { g.chance(1, 3) };
    if unreadable_for_level {
        match g.below(4) {
            // numbers: readable for the u8 filters
            0 => V::Int(g.irange(0, 9)),
            1 => V::U8(g.below(9) as u8),
            _ => g.pick(&UNREADABLE_FOR_LEVEL).clone(),
        }
    } else {
        gen_readable_level(g)
    }
}

#[derive(Clone, Copy, Debug, PartialEq, Eq, Hash)]
pub enum MKind {
    Opt,
    Arr,
    Slice,
    Map,
    Mac,
}

// (a bare `(key, value)` tuple member behaves like `Some((key, value))` and is left out)

#[derive(Clone, Debug, PartialEq, Eq, Hash)]
pub struct Member {
    pub kind: MKind,
    pub pairs: Vec<(&'static str, V)>,
}

/// A member of kind `kind` that carries `lvl: v` (if given) among decoys.
fn member(g: &mut Rng, kind: MKind, lvl: Option<V>) -> Member {
    let decoy_v = |g: &mut Rng| if g.bool() { V::Text("error", 3) } else { V::Int(g.irange(0, 9)) };
    let pairs = match kind {
        MKind::Opt => match lvl {
            Some(v) => vec![("lvl", v)],
            None if g.bool() => vec![],
            None => vec![("level", decoy_v(g))],
        },
        MKind::Arr => match lvl {
            Some(v) if g.bool() => vec![("lvl", v), ("lvl_", decoy_v(g))],
            Some(v) => vec![("a", decoy_v(g)), ("lvl", v)],
            None => vec![("a", decoy_v(g)), ("lvl_", decoy_v(g))],
        },
        MKind::Mac => match lvl {
            Some(v) => vec![("a", V::Int(7)), ("lvl", v)],
            None => vec![("a", V::Int(7)), ("lvl_", decoy_v(g))],
        },
        MKind::Map => {
            let mut p = Vec::new();
            if g.bool() {
                p.push(("a", decoy_v(g)));
            }
            if let Some(v) = lvl {
                p.push(("lvl", v));
            }
            if g.bool() {
                p.push(("lvl_", decoy_v(g)));
            }
            if g.bool() {
                p.push(("z", decoy_v(g)));
            }
            p
        }
        MKind::Slice => {
            let mut p = Vec::new();
            if g.bool() {
                p.push(("a", decoy_v(g)));
            }
            if let Some(v) = lvl {
                p.push(("lvl", v));
                // a slice may repeat the key itself
                if g.chance(1, 4) {
                    p.push(("lvl", gen_v(g, false)));
                }
            }
            if g.bool() {
                p.push(("level", decoy_v(g)));
            }
            p
        }
    };
    Member { kind, pairs }
}

#[derive(Clone, Debug)]
pub struct Rules {
    plain: Rule,
    with_default: Rule,
    num: (u8, Option<u8>),
    num_default: (u8, Option<u8>),
    map_reg: Rule,
    map_def: Rule,
    nmap_reg: (u8, Option<u8>),
    nmap_def: (u8, Option<u8>),
}

struct Filters {
    plain: MinLevelFilter,
    with_default: MinLevelFilter,
    num: MinLevelFilter<u8>,
    num_default: MinLevelFilter<u8>,
    map: MinLevelPathMap,
    nmap: MinLevelPathMap<u8>,
}

impl Rules {
    fn gen(g: &mut Rng) -> Rules {
        let mut plain = gen_rule(g);
        plain.unleveled = None;
        let mut with_default = gen_rule(g);
        if with_default.unleveled.is_none() {
            with_default.unleveled = Some(g.usize(4));
        }
        let mut num = gen_int_rule(g);
        num.1 = None;
        let mut num_default = gen_int_rule(g);
        if num_default.1.is_none() {
            num_default.1 = Some(g.below(9) as u8);
        }
        Rules { plain, with_default, num, num_default, map_reg: gen_rule(g), map_def: gen_rule(g), nmap_reg: gen_int_rule(g), nmap_def: gen_int_rule(g) }
    }

    fn real(&self) -> Filters {
        let mut map = MinLevelPathMap::new();
        map.min_level(Path::new_raw("app"), self.map_reg.real());
        map.default_min_level(self.map_def.real());
        let mut nmap = MinLevelPathMap::<u8>::new();
        nmap.min_level(Path::new_raw("app"), int_rule_real(&self.nmap_reg));
        nmap.default_min_level(int_rule_real(&self.nmap_def));
        Filters {
            plain: min_filter(LEVELS[self.plain.min]),
            with_default: self.with_default.real(),
            num: int_rule_real(&self.num),
            num_default: int_rule_real(&self.num_default),
            map,
            nmap,
        }
    }
}

const MODULES: [&str; 3] = ["app", "app::db::pool", "other"];
const MAP_NAMES: [&str; 3] = ["MinLevelPathMap:registered", "MinLevelPathMap:ancestor", "MinLevelPathMap:default"];
const NMAP_NAMES: [&str; 3] = ["MinLevelPathMap<u8>:registered", "MinLevelPathMap<u8>:ancestor", "MinLevelPathMap<u8>:default"];

/// The rule a named filter applies, as (Level rule | u8 rule).
enum AnyRule<'a> {
    L(&'a Rule),
    N(&'a (u8, Option<u8>)),
}

fn rule_of<'a>(rules: &'a Rules, filter: &str) -> AnyRule<'a> {
    match filter {
        "min_filter" => AnyRule::L(&rules.plain),
        "MinLevelFilter+default" => AnyRule::L(&rules.with_default),
        "MinLevelFilter<u8>" => AnyRule::N(&rules.num),
        "MinLevelFilter<u8>+default" => AnyRule::N(&rules.num_default),
        "MinLevelPathMap:registered" | "MinLevelPathMap:ancestor" => AnyRule::L(&rules.map_reg),
        "MinLevelPathMap:default" => AnyRule::L(&rules.map_def),
        "MinLevelPathMap<u8>:registered" | "MinLevelPathMap<u8>:ancestor" => AnyRule::N(&rules.nmap_reg),
        _ => AnyRule::N(&rules.nmap_def),
    }
}

/// `Some(accept)` under `rule` for an event whose level value is `v` (None = no `lvl` at all).
fn accepts(rule: &AnyRule, v: Option<&V>) -> Option<bool> {
    match rule {
        AnyRule::L(rule) => {
            let level = v.and_then(|v| v.level()).unwrap_or(rule.unleveled.unwrap_or(1));
            Some(level >= rule.min)
        }
        AnyRule::N(rule) => {
            let reading = match v {
                None => None,
                Some(v) => v.int()?,
            };
            Some(reading.unwrap_or(rule.1.unwrap_or(0)) >= rule.0)
        }
    }
}

struct Answer {
    shape: &'static str,
    filter: &'static str,
    view: &'static str,
    got: bool,
}

/// Which statically typed shapes a case runs through. The member kinds of each mode are a fixed small set, so
/// that the number of monomorphised `And<..>` types (and with it the build time) stays small.
#[derive(Clone, Copy, Debug, PartialEq, Eq)]
pub enum Mode {
    /// `own.and_props(base)`: every kind x every kind
    Pair,
    /// `own.and_props(base).and_props(ambient)` and `own.and_props(base.and_props(ambient))`: own / base are
    /// arrays, maps or macro-built, the third member is a slice
    Triple,
    /// own (array, Option, macro-built) `.and_props(base)` (slice, map) on an event handed to a real runtime,
    /// the third member buffered in a `ThreadLocalCtxt` frame
    Runtime,
}

const PAIR_KINDS: [MKind; 5] = [MKind::Opt, MKind::Arr, MKind::Slice, MKind::Map, MKind::Mac];
const TRIPLE_KINDS: [MKind; 3] = [MKind::Arr, MKind::Map, MKind::Mac];
const RT_OWN_KINDS: [MKind; 3] = [MKind::Arr, MKind::Opt, MKind::Mac];
const RT_BASE_KINDS: [MKind; 2] = [MKind::Slice, MKind::Map];

struct Cx<'c> {
    members: &'c [Member],
    vals: Vec<Vec<(&'static str, Value<'c>)>>,
    f: &'c Filters,
    answers: RefCell<Vec<Answer>>,
}

impl<'c> Cx<'c> {
    fn push(&self, shape: &'static str, filter: &'static str, view: &'static str, got: bool) {
        self.answers.borrow_mut().push(Answer { shape, filter, view, got });
    }
}

trait Visit {
    fn visit<P: Props>(self, props: P);
}

/// `with_<set>(kind, pairs, visitor)`: build the member of that kind as its CONCRETE type and hand it on.
macro_rules! member_dispatch {
    ($name:ident: $($kind:ident),*) => {
        fn $name<'a, Z: Visit>(kind: MKind, pairs: &'a [(&'static str, Value<'a>)], z: Z) {
            #[allow(unused)]
            let kv = |i: usize| (pairs[i].0, pairs[i].1.by_ref());
            match kind {
                $(MKind::$kind => member_dispatch!(@arm $kind, pairs, kv, z),)*
                #[allow(unreachable_patterns)]
                other => panic!("member kind {:?} is not generated for {}", other, stringify!($name)),
            }
        }
    };
    (@arm Opt, $pairs:ident, $kv:ident, $z:ident) => { $z.visit(if $pairs.is_empty() { None } else { Some($kv(0)) }) };
    (@arm Arr, $pairs:ident, $kv:ident, $z:ident) => { $z.visit([$kv(0), $kv(1)]) };
    (@arm Slice, $pairs:ident, $kv:ident, $z:ident) => { $z.visit($pairs) };
    (@arm Map, $pairs:ident, $kv:ident, $z:ident) => { $z.visit($pairs.iter().map(|(k, v)| (*k, v.by_ref())).collect::<BTreeMap<&str, Value>>()) };
    (@arm Mac, $pairs:ident, $kv:ident, $z:ident) => {{
        let (a, l) = ($pairs[0].1.by_ref(), $pairs[1].1.by_ref());
        if $pairs[1].0 == "lvl" {
            $z.visit(emit::props! { #[emit::as_value] a: a, #[emit::as_value] lvl: l })
        } else {
            $z.visit(emit::props! { #[emit::as_value] a: a, #[emit::as_value] lvl_: l })
        }
    }};
}

member_dispatch!(with_pair_member: Opt, Arr, Slice, Map, Mac);
member_dispatch!(with_triple_member: Arr, Map, Mac);
member_dispatch!(with_third_member: Slice);
member_dispatch!(with_rt_own: Arr, Opt, Mac);
member_dispatch!(with_rt_base: Slice, Map);

/// Ask every filter about the event with these properties, through every view.
fn eval_all<P: Props>(cx: &Cx, shape: &'static str, props: P) {
    for (mi, module) in MODULES.iter().copied().enumerate() {
        let evt = Event::new(Path::new_raw(module), Template::literal("c17 chain"), Empty, &props);
        let erased: &dyn ErasedProps = &props;
        let evt_erased_props = Event::new(Path::new_raw(module), Template::literal("c17 chain"), Empty, erased);
        macro_rules! ask {
            ($name:expr, $f:expr) => {{
                let f = $f;
                cx.push(shape, $name, "generic", f.matches(&evt));
                cx.push(shape, $name, "dyn-filter", (f as &dyn ErasedFilter).matches(&evt));
                cx.push(shape, $name, "erased-event", f.matches(evt.erase()));
                cx.push(shape, $name, "erased-props", f.matches(&evt_erased_props));
            }};
        }
        if mi == 0 {
            ask!("min_filter", &cx.f.plain);
            ask!("MinLevelFilter+default", &cx.f.with_default);
            ask!("MinLevelFilter<u8>", &cx.f.num);
            ask!("MinLevelFilter<u8>+default", &cx.f.num_default);
        }
        ask!(MAP_NAMES[mi], &cx.f.map);
        ask!(NMAP_NAMES[mi], &cx.f.nmap);
    }
}

/// Own and base properties on an event handed to a real runtime; the third member is ambient.
fn runtime_emit<P: Props>(cx: &Cx, own_and_base: P) {
    let ctxt = tl_ctxt();
    let count = Cell::new(0u32);
    let em = emit::emitter::from_fn(|_evt| count.set(count.get() + 1));
    let ambient: Vec<(&'static str, Value)> = cx.vals.get(2).map(|v| v.iter().map(|(k, v)| (*k, v.by_ref())).collect()).unwrap_or_default();
    Frame::push(ctxt, &ambient[..]).call(|| {
        for (mi, module) in MODULES.iter().copied().enumerate() {
            let evt = Event::new(Path::new_raw(module), Template::literal("c17 runtime"), Empty, &own_and_base);
            macro_rules! ask {
                ($name:expr, $f:expr) => {{
                    count.set(0);
                    let rt = Runtime::build(&em, $f, ctxt, Empty, Empty);
                    rt.emit(&evt);
                    cx.push("runtime-emit", $name, "runtime-emit", count.get() == 1);
                }};
            }
            if mi == 0 {
                ask!("min_filter", &cx.f.plain);
                ask!("MinLevelFilter+default", &cx.f.with_default);
                ask!("MinLevelFilter<u8>", &cx.f.num);
                ask!("MinLevelFilter<u8>+default", &cx.f.num_default);
            }
            ask!(MAP_NAMES[mi], &cx.f.map);
            ask!(NMAP_NAMES[mi], &cx.f.nmap);
        }
    });
}

struct OwnPair<'x, 'c>(&'x Cx<'c>);
struct BasePair<'x, 'c, A>(&'x Cx<'c>, A);
struct OwnTriple<'x, 'c>(&'x Cx<'c>);
struct BaseTriple<'x, 'c, A>(&'x Cx<'c>, A);
struct Third<'x, 'c, A, B>(&'x Cx<'c>, A, B);
struct OwnRt<'x, 'c>(&'x Cx<'c>);
struct BaseRt<'x, 'c, A>(&'x Cx<'c>, A);

impl<'x, 'c> Visit for OwnPair<'x, 'c> {
    fn visit<A: Props>(self, a: A) {
        with_pair_member(self.0.members[1].kind, &self.0.vals[1], BasePair(self.0, a));
    }
}

impl<'x, 'c, A: Props> Visit for BasePair<'x, 'c, A> {
    fn visit<B: Props>(self, b: B) {
        // as the macros build it: `props.and_props(base_props)`, both by reference
        eval_all(self.0, "own.and(base)", (&self.1).and_props(&b));
    }
}

impl<'x, 'c> Visit for OwnTriple<'x, 'c> {
    fn visit<A: Props>(self, a: A) {
        with_triple_member(self.0.members[1].kind, &self.0.vals[1], BaseTriple(self.0, a));
    }
}

impl<'x, 'c, A: Props> Visit for BaseTriple<'x, 'c, A> {
    fn visit<B: Props>(self, b: B) {
        with_third_member(self.0.members[2].kind, &self.0.vals[2], Third(self.0, self.1, b));
    }
}

impl<'x, 'c, A: Props, B: Props> Visit for Third<'x, 'c, A, B> {
    fn visit<C: Props>(self, c: C) {
        let Third(cx, a, b) = self;
        // as `emit_core::emit` builds it on top of the macros: references, left-nested
        eval_all(cx, "own.and(base).and(ambient)", (&a).and_props(&b).and_props(&c));
        eval_all(cx, "own.and(base.and(ambient))", a.and_props(b.and_props(c)));
    }
}

impl<'x, 'c> Visit for OwnRt<'x, 'c> {
    fn visit<A: Props>(self, a: A) {
        with_rt_base(self.0.members[1].kind, &self.0.vals[1], BaseRt(self.0, a));
    }
}

impl<'x, 'c, A: Props> Visit for BaseRt<'x, 'c, A> {
    fn visit<B: Props>(self, b: B) {
        runtime_emit(self.0, (&self.1).and_props(&b));
    }
}

fn run_chain(cx: &Cx, mode: Mode) {
    let (kind, pairs) = (cx.members[0].kind, &cx.vals[0]);
    match mode {
        Mode::Pair => with_pair_member(kind, pairs, OwnPair(cx)),
        Mode::Triple => with_triple_member(kind, pairs, OwnTriple(cx)),
        Mode::Runtime => with_rt_own(kind, pairs, OwnRt(cx)),
    }
}

/// The model: the pairs in enumeration order; the first `lvl` is the event's level value.
fn lvls(members: &[Member]) -> Vec<(usize, &V)> {
    let mut out = Vec::new();
    for (mi, m) in members.iter().enumerate() {
        for (k, v) in &m.pairs {
            if *k == "lvl" {
                out.push((mi, v));
            }
        }
    }
    out
}

fn case_json(origin: &str, seed: u64, index: u64, members: &[Member], rules: &Rules) -> Json {
    json!({"section": "chains", "origin": origin, "seed": seed, "index": index, "members": format!("{:?}", members), "rules": format!("{:?}", rules)})
}

/// Run one chain against one set of rules and judge every answer.
fn judge_chain(r: &mut Report, origin: &str, seed: u64, index: u64, members: &[Member], rules: &Rules, mode: Mode) {
    r.eval();
    r.observe(&format!("and-chain:mode:{:?}", mode), 1);
    let filters = rules.real();
    let cx = Cx {
        members,
        vals: members.iter().map(|m| m.pairs.iter().map(|(k, v)| (*k, v.value())).collect()).collect(),
        f: &filters,
        answers: RefCell::new(Vec::new()),
    };
    let case = || case_json(origin, seed, index, members, rules);
    if let Err(msg) = catch(|| run_chain(&cx, mode)) {
        r.violation("C17:panic:and-chain", &format!("a filter panicked on the chain {:?}: {}", members, msg), case());
        return;
    }
    let all = lvls(members);
    let first = all.first().map(|(_, v)| *v);
    let position = match all.first() {
        None => "none",
        Some((0, _)) => "own",
        Some((1, _)) => "base",
        Some(_) => "ambient",
    };
    let answers = cx.answers.into_inner();
    r.observe("and-chain:matches-calls", answers.len() as u64);
    r.observe(&format!("and-chain:lvl-occurrences:{}", all.len().min(3)), 1);
    r.observe(&format!("and-chain:first-lvl-in:{}", position), 1);
    let mut classes_seen: Vec<String> = Vec::new();
    for a in &answers {
        let rule = rule_of(rules, a.filter);
        let want = match accepts(&rule, first) {
            Some(w) => w,
            None => {
                r.observe("and-chain:unjudged:typed-level-for-u8-filter", 1);
                continue;
            }
        };
        // what the first and the later values are TO THIS FILTER
        let readable = |v: &V| match rule {
            AnyRule::L(_) => v.level().is_some(),
            AnyRule::N(_) => matches!(v.int(), Some(Some(_))),
        };
        let class = match all.len() {
            0 => "no-lvl".to_string(),
            1 => format!("single-lvl:{}", if readable(all[0].1) { "readable" } else { "unreadable" }),
            _ => {
                let later_readable = all[1..].iter().any(|(_, v)| readable(v));
                format!(
                    "shadowed-lvl:first-{}:later-{}",
                    if readable(all[0].1) { "readable" } else { "unreadable" },
                    if later_readable { "readable" } else { "unreadable" }
                )
            }
        };
        // would a later occurrence decide differently? (then a fall-through shows)
        let discriminating = all.iter().skip(1).any(|(_, v)| accepts(&rule, Some(*v)).map(|w| w != want).unwrap_or(false));
        if !classes_seen.contains(&class) {
            r.observe(&format!("and-chain:class:{}", class), 1);
            if discriminating {
                r.observe(&format!("and-chain:class:{}:a-later-lvl-would-decide-differently", class), 1);
            }
            r.nontrivial(&("chain", members, &class, a.filter));
            classes_seen.push(class.clone());
        }
        if a.view == "runtime-emit" {
            r.observe("and-chain:runtime-emits", 1);
        }
        if a.got != want {
            let chain = match a.view {
                "generic" => "generic-and-chain",
                "runtime-emit" => "runtime-emit",
                _ => "erased-and-chain",
            };
            let head = if all.len() > 1 {
                format!("C17:shadowed-lvl:first-{}", if readable(all[0].1) { "readable" } else { "unreadable" })
            } else {
                format!("C17:and-chain:{}", class)
            };
            r.violation(
                &format!("{}:{}:{}:{}", head, chain, a.filter, if want { "rejects" } else { "accepts" }),
                &format!(
                    "chain {:?} ({}, view {}): `lvl` occurs {} time(s), the first (in {}) is {:?}; {} with {:?} answered {}, expected {}{}",
                    members,
                    a.shape,
                    a.view,
                    all.len(),
                    position,
                    first,
                    a.filter,
                    match &rule {
                        AnyRule::L(rule) => format!("{:?}", rule),
                        AnyRule::N(rule) => format!("{:?}", rule),
                    },
                    a.got,
                    want,
                    if discriminating { " (a later, shadowed `lvl` would give the observed answer)" } else { "" }
                ),
                case(),
            );
        }
    }
}

/// Seeded chains: `lvl` in any subset of the members of a pair, a triple or a runtime case.
pub fn chain_case(r: &mut Report, seed: u64, index: u64) {
    let mut g = Rng::stream(seed, &[17, 4, index]);
    let mode = match index % 4 {
        0 => Mode::Runtime,
        1 => Mode::Pair,
        _ => Mode::Triple,
    };
    let kinds: Vec<MKind> = match mode {
        Mode::Pair => vec![*g.pick(&PAIR_KINDS), *g.pick(&PAIR_KINDS)],
        Mode::Triple => vec![*g.pick(&TRIPLE_KINDS), *g.pick(&TRIPLE_KINDS), MKind::Slice],
        Mode::Runtime if g.chance(1, 4) => vec![*g.pick(&RT_OWN_KINDS), *g.pick(&RT_BASE_KINDS)],
        Mode::Runtime => vec![*g.pick(&RT_OWN_KINDS), *g.pick(&RT_BASE_KINDS), MKind::Slice],
    };
    let n = kinds.len();
    let mut members = Vec::new();
    let mut first = true;
    for (i, kind) in kinds.into_iter().enumerate() {
        // the first occurrence is in the first member half of the time, else further right
        let has = if first { g.chance(1, 2) || (i == n - 1 && g.chance(2, 3)) } else { g.chance(2, 3) };
        let lvl = if has {
            let v = gen_v(&mut g, first);
            first = false;
            Some(v)
        } else {
            None
        };
        members.push(member(&mut g, kind, lvl));
    }
    if mode == Mode::Runtime {
        // the third member is buffered in a frame: unique keys there
        if let Some(m) = members.get_mut(2) {
            let mut seen: Vec<&'static str> = Vec::new();
            m.pairs.retain(|(k, _)| {
                let fresh = !seen.contains(k);
                seen.push(*k);
                fresh
            });
        }
    }
    let rules = Rules::gen(&mut g);
    judge_chain(r, "seeded", seed, index, &members, &rules, mode);
    if r.wants_sample() && index < 3 {
        r.sample(|| json!({"mode": format!("{:?}", mode), "chain": format!("{:?}", members), "rules": format!("{:?}", rules)}));
    }
}

/// Rules under which "the first (unreadable) value decides" and "a later readable value decides"
/// give different answers, in both directions.
fn discriminating_rules(later_level: usize, later_int: u8) -> Vec<Rules> {
    let mut out = Vec::new();
    // unleveled = Info / 0 (no default), and a default on the other side of the minimum
    for default in [false, true] {
        // Level family: the event is judged at `unl`, the shadowed value is `later_level`
        let (min, unl): (usize, Option<usize>) = match (later_level, default) {
            // later above Info: min between Info and later -> reject, fall-through accepts
            (l, false) if l >= 2 => (l, None),
            // later below Info: min = Info -> accept, fall-through rejects
            (_, false) => (1, None),
            // with a default: default Error accepts at min above `later`; default Debug rejects at min <= later
            (l, true) if l < 3 => (l + 1, Some(3)),
            (l, true) => (l, Some(0)),
        };
        let (nmin, nunl): (u8, Option<u8>) = match default {
            // unleveled = 0: min = later -> reject, fall-through accepts
            false => (later_int.max(1), None),
            // default above everything: accept, fall-through rejects
            true => (later_int + 1, Some(later_int + 3)),
        };
        let l = Rule { min, unleveled: unl };
        out.push(Rules {
            plain: Rule { min, unleveled: None },
            with_default: Rule { min, unleveled: Some(unl.unwrap_or(if min > 1 { 0 } else { 3 })) },
            num: (nmin, None),
            num_default: (nmin, Some(nunl.unwrap_or(0))),
            map_reg: l.clone(),
            map_def: l,
            nmap_reg: (nmin, nunl),
            nmap_def: (nmin, nunl),
        });
    }
    out
}

/// A slice member with unique keys (it is buffered in a frame in the runtime mode).
fn slice_with(lvl: Option<V>) -> Member {
    let mut pairs = vec![("b", V::Int(2))];
    if let Some(v) = lvl {
        pairs.push(("lvl", v));
    }
    pairs.push(("lvl_", V::Text("debug", 0)));
    Member { kind: MKind::Slice, pairs }
}

/// The primary class, enumerated: every unreadable first value x every combination of member kinds of every
/// mode x readable later values x both discriminating directions; and the mirror classes.
pub fn chain_table(r: &mut Report) {
    let mut g = Rng::stream(0, &[17, 5]);
    let mut index = 0u64;
    let mut unreadables: Vec<V> = UNREADABLE_FOR_LEVEL.to_vec();
    unreadables.extend(UNREADABLE_FOR_U8.iter().cloned());
    for (mode, own_kinds, base_kinds) in [
        (Mode::Pair, &PAIR_KINDS[..], &PAIR_KINDS[..]),
        (Mode::Triple, &TRIPLE_KINDS[..], &TRIPLE_KINDS[..]),
        (Mode::Runtime, &RT_OWN_KINDS[..], &RT_BASE_KINDS[..]),
    ] {
        for k1 in own_kinds {
            for k2 in base_kinds {
                for (ui, u) in unreadables.iter().enumerate() {
                    // a later value readable by the family the first one is unreadable for
                    let laters: [V; 2] = if ui < UNREADABLE_FOR_LEVEL.len() { [V::Text("error", 3), V::Typed(0)] } else { [V::Int(5), V::U8(1)] };
                    for later in laters {
                        let (ll, li) = (later.level().unwrap_or(3), later.int().flatten().unwrap_or(5));
                        for (variant, rules) in discriminating_rules(ll, li).into_iter().enumerate() {
                            index += 1;
                            let third = |lvl: Option<V>| (mode != Mode::Pair).then(|| slice_with(lvl));
                            // first unreadable in own, the readable one shadowed in base (and again in the third member)
                            let mut members = vec![member(&mut g, *k1, Some(u.clone())), member(&mut g, *k2, Some(later.clone()))];
                            members.extend(third(Some(later.clone())));
                            r.observe("and-chain:table:first-unreadable-later-readable", 1);
                            judge_chain(r, "table", 0, index, &members, &rules, mode);
                            // first unreadable in own, nothing in base, the readable one only in the third member
                            if mode != Mode::Pair {
                                let far = vec![member(&mut g, *k1, Some(u.clone())), member(&mut g, *k2, None), slice_with(Some(later.clone()))];
                                r.observe("and-chain:table:first-unreadable-later-readable", 1);
                                judge_chain(r, "table", 0, index, &far, &rules, mode);
                            }
                            if variant == 0 {
                                // mirror: first readable, later unreadable
                                let mut mirror = vec![member(&mut g, *k1, Some(later.clone())), member(&mut g, *k2, Some(u.clone()))];
                                mirror.extend(third(None));
                                r.observe("and-chain:table:first-readable-later-unreadable", 1);
                                judge_chain(r, "table", 0, index, &mirror, &rules, mode);
                                // the first occurrence only in the right member(s): own has none
                                let mut right = vec![member(&mut g, *k1, None), member(&mut g, *k2, Some(u.clone()))];
                                right.extend(third(Some(later.clone())));
                                r.observe("and-chain:table:first-in-right-member-only", 1);
                                judge_chain(r, "table", 0, index, &right, &rules, mode);
                            }
                        }
                    }
                }
            }
        }
    }
    r.exhaustive("and_props chains: own.and(base) over 5 x 5 member kinds (Option, array, slice, BTreeMap, emit::props!), left- and right-nested triples over 3 x 3 kinds + a slice, Runtime::emit over 3 x 2 kinds + a ThreadLocalCtxt frame; each x 18 unreadable first `lvl` values (10 for Level filters, 8 for u8 filters) x 2 readable shadowed values x 2 rule sets under which the shadowed value would decide differently; plus the mirror (first readable, later unreadable) and first-occurrence-in-the-right-member chains");
}

// ---------------------------------------------------------------------------
// macro call sites: own properties built by `emit::emit!` / `emit::evt!`, `props:` base properties, ambient frame
// ---------------------------------------------------------------------------

fn macro_site(r: &mut Report, origin: &str, seed: u64, index: u64, own: Option<&V>, base: &[(&'static str, V)], ambient: &[(&'static str, V)], rules: &Rules) {
    r.eval();
    let filters = rules.real();
    // the model chain: own [a, lvl?], base, ambient
    let mut own_pairs = vec![("a", V::Int(1))];
    if let Some(v) = own {
        own_pairs.push(("lvl", v.clone()));
    }
    let members = vec![Member { kind: MKind::Mac, pairs: own_pairs }, Member { kind: MKind::Slice, pairs: base.to_vec() }, Member { kind: MKind::Slice, pairs: ambient.to_vec() }];
    let all = lvls(&members);
    let first = all.first().map(|(_, v)| *v);
    let base_vals: Vec<(&'static str, Value)> = base.iter().map(|(k, v)| (*k, v.value())).collect();
    let amb_vals: Vec<(&'static str, Value)> = ambient.iter().map(|(k, v)| (*k, v.value())).collect();
    let case = || case_json(origin, seed, index, &members, rules);
    // (filter name, view, got)
    let res = catch(|| {
        let mut out: Vec<(&'static str, &'static str, bool)> = Vec::new();
        let ctxt = tl_ctxt();
        let count = Cell::new(0u32);
        let em = emit::emitter::from_fn(|_evt| count.set(count.get() + 1));
        Frame::push(ctxt, &amb_vals[..]).call(|| {
            for (mi, module) in MODULES.iter().copied().enumerate() {
                macro_rules! ask {
                    ($name:expr, $f:expr) => {{
                        let rt = Runtime::build(&em, $f, ctxt, Empty, Empty);
                        count.set(0);
                        match own {
                            Some(v) => emit::emit!(rt, mdl: Path::new_raw(module), props: &base_vals[..], "c17 site {a}", a: 1, #[emit::as_value] lvl: v.value()),
                            None => emit::emit!(rt, mdl: Path::new_raw(module), props: &base_vals[..], "c17 site {a}", a: 1),
                        }
                        out.push(($name, "emit!-call-site", count.get() == 1));
                        // the event a call site builds, asked directly (own and base only: no ambient)
                        if amb_vals.is_empty() {
                            let got = match own {
                                Some(v) => $f.matches(&emit::evt!(mdl: Path::new_raw(module), props: &base_vals[..], "c17 site {a}", a: 1, #[emit::as_value] lvl: v.value())),
                                None => $f.matches(&emit::evt!(mdl: Path::new_raw(module), props: &base_vals[..], "c17 site {a}", a: 1)),
                            };
                            out.push(($name, "evt!-call-site", got));
                        }
                    }};
                }
                if mi == 0 {
                    ask!("min_filter", &filters.plain);
                    ask!("MinLevelFilter+default", &filters.with_default);
                    ask!("MinLevelFilter<u8>", &filters.num);
                    ask!("MinLevelFilter<u8>+default", &filters.num_default);
                }
                ask!(MAP_NAMES[mi], &filters.map);
                ask!(NMAP_NAMES[mi], &filters.nmap);
            }
        });
        out
    });
    let answers = match res {
        Ok(a) => a,
        Err(msg) => {
            r.violation("C17:panic:and-chain:call-site", &format!("an emit! / evt! call site panicked: {}", msg), case());
            return;
        }
    };
    r.observe("and-chain:call-site-answers", answers.len() as u64);
    for (filter, view, got) in answers {
        let rule = rule_of(rules, filter);
        let Some(want) = accepts(&rule, first) else {
            r.observe("and-chain:unjudged:typed-level-for-u8-filter", 1);
            continue;
        };
        let readable = |v: &V| match rule {
            AnyRule::L(_) => v.level().is_some(),
            AnyRule::N(_) => matches!(v.int(), Some(Some(_))),
        };
        if all.len() > 1 && !readable(all[0].1) && all[1..].iter().any(|(_, v)| readable(v)) {
            r.observe("and-chain:call-site:first-unreadable-later-readable", 1);
        }
        if got != want {
            let head = if all.len() > 1 {
                format!("C17:shadowed-lvl:first-{}", if readable(all[0].1) { "readable" } else { "unreadable" })
            } else {
                "C17:and-chain:single-or-no-lvl".to_string()
            };
            r.violation(
                &format!("{}:{}:{}:{}", head, view, filter, if want { "rejects" } else { "accepts" }),
                &format!("call site with own lvl {:?}, base {:?}, ambient {:?}: {} through {} answered {}, expected {} (the first `lvl` is {:?})", own, base, ambient, filter, view, got, want, first),
                case(),
            );
        }
    }
}

pub fn site_case(r: &mut Report, seed: u64, index: u64) {
    let mut g = Rng::stream(seed, &[17, 6, index]);
    let own = if g.chance(3, 4) { Some(gen_v(&mut g, true)) } else { None };
    let mut first = own.is_none();
    let list = |g: &mut Rng, first: &mut bool| -> Vec<(&'static str, V)> {
        let mut p = Vec::new();
        if g.bool() {
            p.push(("b", V::Int(2)));
        }
        if g.chance(2, 3) {
            p.push(("lvl", gen_v(g, *first)));
            *first = false;
        }
        if g.bool() {
            p.push(("lvl_", V::Text("error", 3)));
        }
        p
    };
    let base = list(&mut g, &mut first);
    let ambient = if g.chance(1, 3) { Vec::new() } else { list(&mut g, &mut first) };
    let rules = Rules::gen(&mut g);
    macro_site(r, "site", seed, index, own.as_ref(), &base, &ambient, &rules);
}

pub fn site_table(r: &mut Report) {
    let mut index = 0;
    for (ui, u) in UNREADABLE_FOR_LEVEL.iter().chain(UNREADABLE_FOR_U8.iter()).enumerate() {
        // a shadowed value the family reads for which `u` is unreadable
        let later = if ui < UNREADABLE_FOR_LEVEL.len() { V::Text("error", 3) } else { V::Int(5) };
        for rules in discriminating_rules(3, 5) {
            index += 1;
            r.observe("and-chain:table:call-sites", 4);
            // own unreadable, readable in the ambient frame only / in the base only / in both
            macro_site(r, "site-table", 0, index, Some(u), &[], &[("lvl", later.clone())], &rules);
            macro_site(r, "site-table", 0, index, Some(u), &[("b", V::Int(2)), ("lvl", later.clone())], &[], &rules);
            macro_site(r, "site-table", 0, index, Some(u), &[("lvl", later.clone())], &[("lvl", V::Typed(3))], &rules);
            // no own lvl: unreadable in the base shadows the ambient one
            macro_site(r, "site-table", 0, index, None, &[("lvl", u.clone())], &[("lvl", later.clone())], &rules);
        }
    }
    r.exhaustive("emit! / evt! call sites whose own `lvl` is each of the 18 unreadable values while `props:` base properties and / or a ThreadLocalCtxt frame carry a readable one, under rule sets where the shadowed value would decide differently");
}
