/*!
Small helpers shared by the C08 / C09 monitors (virtual-time polling of `Receiver::exec`,
metric reading, a gate to park a processor on).

Deliberately independent of `shared/chan.rs` (C06/C07).
*/
#![allow(dead_code)]

use std::{
    collections::BTreeMap,
    future::Future,
    pin::Pin,
    sync::{Arc, Condvar, Mutex},
    task::{Context, Poll, Wake, Waker},
    time::Duration,
};

use emit::metric::Source as _;

/// A future that is `Pending` exactly once (and asks to be polled again).
pub struct YieldOnce(pub bool);

impl YieldOnce {
    pub fn new() -> Self {
        YieldOnce(false)
    }
}

impl Future for YieldOnce {
    type Output = ();

    fn poll(mut self: Pin<&mut Self>, cx: &mut Context<'_>) -> Poll<()> {
        if self.0 {
            Poll::Ready(())
        } else {
            self.0 = true;
            cx.waker().wake_by_ref();
            Poll::Pending
        }
    }
}

struct Noop;

impl Wake for Noop {
    fn wake(self: Arc<Self>) {}
}

pub fn noop_waker() -> Waker {
    Arc::new(Noop).into()
}

/// Poll a pinned future once with a waker that does nothing.
pub fn poll_once<F: Future + ?Sized>(fut: Pin<&mut F>) -> Poll<F::Output> {
    let waker = noop_waker();
    let mut cx = Context::from_waker(&waker);
    fut.poll(&mut cx)
}

/// All metrics of a channel (`queue_length`, `queue_full_truncated`, …) by name.
pub fn metrics<T: emit_batcher::Channel>(source: &emit_batcher::ChannelMetrics<T>) -> BTreeMap<String, u64> {
    let out = std::cell::RefCell::new(BTreeMap::new());
    source.sample_metrics(emit::metric::sampler::from_fn(|m| {
        let v = m
            .value()
            .by_ref()
            .cast::<u64>()
            .or_else(|| m.value().to_string().parse::<u64>().ok())
            .unwrap_or(u64::MAX);
        out.borrow_mut().insert(m.name().to_string(), v);
    }));
    out.into_inner()
}

/// A gate a processor can park on until the monitor opens it. `arrivals` counts how many
/// times somebody started waiting (so the monitor can tell "the processor is parked now").
#[derive(Clone)]
pub struct Gate(Arc<(Mutex<GateState>, Condvar)>);

#[derive(Default)]
struct GateState {
    open: bool,
    arrivals: u64,
    parked: u64,
}

impl Gate {
    pub fn new(open: bool) -> Self {
        Gate(Arc::new((
            Mutex::new(GateState {
                open,
                arrivals: 0,
                parked: 0,
            }),
            Condvar::new(),
        )))
    }

    /// Block until the gate is open.
    pub fn pass(&self) {
        let mut g = (self.0).0.lock().unwrap();
        g.arrivals += 1;
        g.parked += 1;
        (self.0).1.notify_all();
        while !g.open {
            g = (self.0).1.wait(g).unwrap();
        }
        g.parked -= 1;
    }

    pub fn open(&self) {
        (self.0).0.lock().unwrap().open = true;
        (self.0).1.notify_all();
    }

    pub fn close(&self) {
        (self.0).0.lock().unwrap().open = false;
    }

    pub fn arrivals(&self) -> u64 {
        (self.0).0.lock().unwrap().arrivals
    }

    /// Wait (bounded, watchdog only) until at least `n` arrivals were seen. False on expiry.
    pub fn wait_arrivals(&self, n: u64, watchdog: Duration) -> bool {
        let mut g = (self.0).0.lock().unwrap();
        let start = std::time::Instant::now();
        while g.arrivals < n {
            let left = match watchdog.checked_sub(start.elapsed()) {
                Some(l) if l > Duration::ZERO => l,
                _ => return false,
            };
            g = (self.0).1.wait_timeout(g, left).unwrap().0;
        }
        true
    }
}

/// A flag with a bounded wait: used to learn that a helper thread finished.
pub struct Done<T>(Arc<(Mutex<Option<T>>, Condvar)>);

impl<T> Clone for Done<T> {
    fn clone(&self) -> Self {
        Done(self.0.clone())
    }
}

impl<T> Done<T> {
    pub fn new() -> Self {
        Done(Arc::new((Mutex::new(None), Condvar::new())))
    }

    pub fn set(&self, v: T) {
        *(self.0).0.lock().unwrap() = Some(v);
        (self.0).1.notify_all();
    }

    /// Take the value if it arrives within `limit`.
    pub fn wait(&self, limit: Duration) -> Option<T> {
        let mut g = (self.0).0.lock().unwrap();
        let start = std::time::Instant::now();
        loop {
            if let Some(v) = g.take() {
                return Some(v);
            }
            let left = match limit.checked_sub(start.elapsed()) {
                Some(l) if l > Duration::ZERO => l,
                _ => return None,
            };
            g = (self.0).1.wait_timeout(g, left).unwrap().0;
        }
    }
}

/// Run `f` on a helper thread and wait at most `limit` for it. `None` = it did not come back
/// (the thread is leaked; nothing it holds is touched again). Used so that a deadlock inside the
/// code under test can never hang the monitor itself.
pub fn run_bounded<T: Send + 'static>(name: &str, limit: Duration, f: impl FnOnce() -> T + Send + 'static) -> Option<T> {
    let done: Done<std::thread::Result<T>> = Done::new();
    let d2 = done.clone();
    let spawned = std::thread::Builder::new().name(name.chars().take(15).collect()).spawn(move || {
        let res = std::panic::catch_unwind(std::panic::AssertUnwindSafe(f));
        d2.set(res);
    });
    if spawned.is_err() {
        return None;
    }
    match done.wait(limit) {
        Some(Ok(v)) => Some(v),
        Some(Err(p)) => std::panic::resume_unwind(p),
        None => None,
    }
}

/// Run one section of a monitor on a helper thread with its own child report; merge it if it
/// finished within `limit`, otherwise note an inconclusive result and move on.
pub fn bounded_section(
    r: &mut vcommon::Report,
    name: &str,
    limit: Duration,
    f: impl FnOnce(&mut vcommon::Report) + Send + 'static,
) -> bool {
    let mut child = r.child();
    match run_bounded(name, limit, move || {
        f(&mut child);
        child
    }) {
        Some(child) => {
            r.merge(child);
            true
        }
        None => {
            r.inconclusive(format!("section `{}` did not finish within {:?} (something inside the code under test never returned); its results are missing", name, limit));
            false
        }
    }
}

/// One (scoped) thread per cell, for scenarios that mostly wait: `vcommon::par_cases` hands out
/// blocks of 16 cases per worker, which serialises a handful of slow cells.
pub fn par_each<C: Sync>(r: &mut vcommon::Report, cells: &[C], f: impl Fn(&C, &mut vcommon::Report) + Sync) {
    for chunk in cells.chunks(48) {
        let children: Vec<vcommon::Report> = std::thread::scope(|s| {
            let hs: Vec<_> = chunk
                .iter()
                .map(|c| {
                    let mut child = r.child();
                    let f = &f;
                    s.spawn(move || {
                        f(c, &mut child);
                        child
                    })
                })
                .collect();
            hs.into_iter().filter_map(|h| h.join().ok()).collect()
        });
        for c in children {
            r.merge(c);
        }
    }
}
