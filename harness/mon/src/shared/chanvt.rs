/*!
Small helpers shared by the C08 / C09 monitors (virtual-time polling of `Receiver::exec`,
metric reading, a gate to park a processor on).

Deliberately independent of `shared/chan.rs` (C06/C07).
*/
#![allow(dead_code)]

use std::{
    collections::BTreeMap,
    future::Future,
    pin::Pin,
    sync::{Arc, Condvar, Mutex},
    task::{Context, Poll, Wake, Waker},
    time::Duration,
};

use emit::metric::Source as _;

/// A future that is `Pending` exactly once (and asks to be polled again).
pub struct YieldOnce(pub bool);

impl YieldOnce {
    pub fn new() -> Self {
        YieldOnce(false)
    }
}

impl Future for YieldOnce {
    type Output = ();

    fn poll(mut self: Pin<&mut Self>, cx: &mut Context<'_>) -> Poll<()> {
        if self.0 {
            Poll::Ready(())
        } else {
            self.0 = true;
            cx.waker().wake_by_ref();
            Poll::Pending
        }
    }
}

struct Noop;

impl Wake for Noop {
    fn wake(self: Arc<Self>) {}
}

pub fn noop_waker() -> Waker {
    Arc::new(Noop).into()
}

/// Poll a pinned future once with a waker that does nothing.
pub fn poll_once<F: Future + ?Sized>(fut: Pin<&mut F>) -> Poll<F::Output> {
    let waker = noop_waker();
    let mut cx = Context::from_waker(&waker);
    fut.poll(&mut cx)
}

/// All metrics of a channel (`queue_length`, `queue_full_truncated`, …) by name.
pub fn metrics<T: emit_batcher::Channel>(source: &emit_batcher::ChannelMetrics<T>) -> BTreeMap<String, u64> {
    let out = std::cell::RefCell::new(BTreeMap::new());
    source.sample_metrics(emit::metric::sampler::from_fn(|m| {
        let v = m
            .value()
            .by_ref()
            .cast::<u64>()
            .or_else(|| m.value().to_string().parse::<u64>().ok())
            .unwrap_or(u64::MAX);
        out.borrow_mut().insert(m.name().to_string(), v);
    }));
    out.into_inner()
}

/// A gate a processor can park on until the monitor opens it. `arrivals` counts how many
/// times somebody started waiting (so the monitor can tell "the processor is parked now").
#[derive(Clone)]
pub struct Gate(Arc<(Mutex<GateState>, Condvar)>);

#[derive(Default)]
struct GateState {
    open: bool,
    arrivals: u64,
    parked: u64,
}

impl Gate {
    pub fn new(open: bool) -> Self {
        Gate(Arc::new((
            Mutex::new(GateState {
                open,
                arrivals: 0,
                parked: 0,
            }),
            Condvar::new(),
        )))
    }

    /// Block until the gate is open.
    pub fn pass(&self) {
        let mut g = (self.0).0.lock().unwrap();
        g.arrivals += 1;
        g.parked += 1;
        (self.0).1.notify_all();
        while !g.open {
            g = (self.0).1.wait(g).unwrap();
        }
        g.parked -= 1;
    }

    pub fn open(&self) {
        (self.0).0.lock().unwrap().open = true;
        (self.0).1.notify_all();
    }

    pub fn close(&self) {
        (self.0).0.lock().unwrap().open = false;
    }

    pub fn arrivals(&self) -> u64 {
        (self.0).0.lock().unwrap().arrivals
    }

    /// Wait (bounded, watchdog only) until at least `n` arrivals were seen. False on expiry.
    pub fn wait_arrivals(&self, n: u64, watchdog: Duration) -> bool {
        let mut g = (self.0).0.lock().unwrap();
        let start = std::time::Instant::now();
        while g.arrivals < n {
            let left = match watchdog.checked_sub(start.elapsed()) {
                Some(l) if l > Duration::ZERO => l,
                _ => return false,
            };
            g = (self.0).1.wait_timeout(g, left).unwrap().0;
        }
        true
    }
}

/// A flag with a bounded wait: used to learn that a helper thread finished.
pub struct Done<T>(Arc<(Mutex<Option<T>>, Condvar)>);

impl<T> Clone for Done<T> {
    fn clone(&self) -> Self {
        Done(self.0.clone())
    }
}

impl<T> Done<T> {
    pub fn new() -> Self {
        Done(Arc::new((Mutex::new(None), Condvar::new())))
    }

    pub fn set(&self, v: T) {
        *(self.0).0.lock().unwrap() = Some(v);
        (self.0).1.notify_all();
    }

    /// Take the value if it arrives within `limit`.
    pub fn wait(&self, limit: Duration) -> Option<T> {
        let mut g = (self.0).0.lock().unwrap();
        let start = std::time::Instant::now();
        loop {
            if let Some(v) = g.take() {
                return Some(v);
            }
            let left = match limit.checked_sub(start.elapsed()) {
                Some(l) if l > Duration::ZERO => l,
                _ => return None,
            };
            g = (self.0).1.wait_timeout(g, left).unwrap().0;
        }
    }
}

/// Run `f` on a helper thread and wait at most `limit` for it. `None` = it did not come back
/// (the thread is leaked; nothing it holds is touched again). Used so that a deadlock inside the
/// code under test can never hang the monitor itself.
pub fn run_bounded<T: Send + 'static>(name: &str, limit: Duration, f: impl FnOnce() -> T + Send + 'static) -> Option<T> {
    let done: Done<std::thread::Result<T>> = Done::new();
    let d2 = done.clone();
    let spawned = std::thread::Builder::new().name(name.chars().take(15).collect()).spawn(move || {
        let res = std::panic::catch_unwind(std::panic::AssertUnwindSafe(f));
        d2.set(res);
    });
    if spawned.is_err() {
        return None;
    }
    match done.wait(limit) {
        Some(Ok(v)) => Some(v),
        Some(Err(p)) => std::panic::resume_unwind(p),
        None => None,
    }
}

/// Run one section of a monitor on a helper thread with its own child report; merge it if it
/// finished within `limit`, otherwise note an inconclusive result and move on.
pub fn bounded_section(
    r: &mut vcommon::Report,
    name: &str,
    limit: Duration,
    f: impl FnOnce(&mut vcommon::Report) + Send + 'static,
) -> bool {
    let mut child = r.child();
    match run_bounded(name, limit, move || {
        f(&mut child);
        child
    }) {
        Some(child) => {
            r.merge(child);
            true
        }
        None => {
            r.inconclusive(format!("section `{}` did not finish within {:?} (something inside the code under test never returned); its results are missing", name, limit));
            false
        }
    }
}

/// One (scoped) thread per cell, for scenarios that mostly wait: `vcommon::par_cases` hands out
/// blocks of 16 cases per worker, which serialises a handful of slow cells.
pub fn par_each<C: Sync>(r: &mut vcommon::Report, cells: &[C], f: impl Fn(&C, &mut vcommon::Report) + Sync) {
    for chunk in cells.chunks(48) {
        let children: Vec<vcommon::Report> = std::thread::scope(|s| {
            let hs: Vec<_> = chunk
                .iter()
                .map(|c| {
                    let mut child = r.child();
                    let f = &f;
                    s.spawn(move || {
                        f(c, &mut child);
                        child
                    })
                })
                .collect();
            hs.into_iter().filter_map(|h| h.join().ok()).collect()
        });
        for c in children {
            r.merge(c);
        }
    }
}

/// A counting global allocator (C09: "does the live heap keep growing?"). The type lives here, the
/// `#[global_allocator]` static is declared by the monitor binary that wants it (c09.rs), so the
/// other users of this file keep the system allocator.
///
/// Counters are striped per thread (a thread picks its stripe on first use; a `const` thread-local
/// without a destructor, so the allocator never allocates or registers anything itself) to keep the
/// heavily threaded sections from serialising on one cache line. `live_bytes` sums the stripes: a
/// block freed by another thread than the one that allocated it makes single stripes negative, the
/// sum is exact once the threads are quiescent.
pub mod heap {
    use std::{
        alloc::{GlobalAlloc, Layout, System},
        cell::Cell,
        sync::atomic::{AtomicI64, AtomicU64, AtomicUsize, Ordering},
    };

    const STRIPES: usize = 64;

    #[repr(align(128))]
    struct Stripe {
        live: AtomicI64,
        calls: AtomicU64,
    }

    static TABLE: [Stripe; STRIPES] = [const {
        Stripe {
            live: AtomicI64::new(0),
            calls: AtomicU64::new(0),
        }
    }; STRIPES];
    static NEXT: AtomicUsize = AtomicUsize::new(0);

    thread_local! {
        static SLOT: Cell<usize> = const { Cell::new(usize::MAX) };
    }

    #[inline]
    fn stripe() -> &'static Stripe {
        let i = SLOT
            .try_with(|s| {
                let mut i = s.get();
                if i == usize::MAX {
                    i = NEXT.fetch_add(1, Ordering::Relaxed) % STRIPES;
                    s.set(i);
                }
                i
            })
            .unwrap_or(0);
        &TABLE[i]
    }

    #[inline]
    fn add(delta: i64, call: bool) {
        let s = stripe();
        s.live.fetch_add(delta, Ordering::Relaxed);
        if call {
            s.calls.fetch_add(1, Ordering::Relaxed);
        }
    }

    pub struct Counting;

    unsafe impl GlobalAlloc for Counting {
        unsafe fn alloc(&self, l: Layout) -> *mut u8 {
            let p = System.alloc(l);
            if !p.is_null() {
                add(l.size() as i64, true);
            }
            p
        }

        unsafe fn alloc_zeroed(&self, l: Layout) -> *mut u8 {
            let p = System.alloc_zeroed(l);
            if !p.is_null() {
                add(l.size() as i64, true);
            }
            p
        }

        unsafe fn dealloc(&self, p: *mut u8, l: Layout) {
            System.dealloc(p, l);
            add(-(l.size() as i64), false);
        }

        unsafe fn realloc(&self, p: *mut u8, l: Layout, new_size: usize) -> *mut u8 {
            let q = System.realloc(p, l, new_size);
            if !q.is_null() {
                add(new_size as i64 - l.size() as i64, true);
            }
            q
        }
    }

    /// Bytes currently allocated and not freed, process-wide.
    pub fn live_bytes() -> i64 {
        TABLE.iter().map(|s| s.live.load(Ordering::Relaxed)).sum()
    }

    /// Number of allocation calls so far (alloc / alloc_zeroed / realloc), process-wide.
    pub fn alloc_calls() -> u64 {
        TABLE.iter().map(|s| s.calls.load(Ordering::Relaxed)).sum()
    }

    /// Has the counting allocator seen anything (i.e. is it the process's global allocator)?
    pub fn installed() -> bool {
        alloc_calls() > 0
    }
}

/// A gate that lets exactly one waiter through per ticket: `pass` blocks until a ticket is there
/// and consumes it. Lets a scenario allow a parked processor exactly one more batch.
#[derive(Clone)]
pub struct TicketGate(Arc<(Mutex<TicketState>, Condvar)>);

#[derive(Default)]
struct TicketState {
    tickets: u64,
    open: bool,
    arrivals: u64,
}

impl TicketGate {
    pub fn new() -> Self {
        TicketGate(Arc::new((Mutex::new(TicketState::default()), Condvar::new())))
    }

    pub fn pass(&self) {
        let mut g = (self.0).0.lock().unwrap();
        g.arrivals += 1;
        (self.0).1.notify_all();
        loop {
            if g.open {
                return;
            }
            if g.tickets > 0 {
                g.tickets -= 1;
                return;
            }
            g = (self.0).1.wait(g).unwrap();
        }
    }

    pub fn ticket(&self) {
        (self.0).0.lock().unwrap().tickets += 1;
        (self.0).1.notify_all();
    }

    /// From now on everybody passes.
    pub fn open(&self) {
        (self.0).0.lock().unwrap().open = true;
        (self.0).1.notify_all();
    }

    pub fn arrivals(&self) -> u64 {
        (self.0).0.lock().unwrap().arrivals
    }

    /// Wait (bounded, watchdog only) until at least `n` arrivals were seen. False on expiry.
    pub fn wait_arrivals(&self, n: u64, watchdog: Duration) -> bool {
        let mut g = (self.0).0.lock().unwrap();
        let start = std::time::Instant::now();
        while g.arrivals < n {
            let left = match watchdog.checked_sub(start.elapsed()) {
                Some(l) if l > Duration::ZERO => l,
                _ => return false,
            };
            g = (self.0).1.wait_timeout(g, left).unwrap().0;
        }
        true
    }
}
