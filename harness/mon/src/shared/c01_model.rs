/*!
C01 — model events, snapshots, leaf predicates and the recording components plugged into the
real emit code. The reference interpreter (in `c01_trees.rs`) is written over `MEvent`; the real
side only ever sees these values through emit's public API.
*/

use std::{
    ops::ControlFlow,
    sync::{
        atomic::{AtomicU64, Ordering},
        Arc, Mutex,
    },
    time::Duration,
};

use emit::{
    event::ToEvent,
    value::{ToValue, Value},
    Clock, Ctxt, Emitter, Event, Extent, Filter, Path, Props, Str, Timestamp,
};
use vcommon::rec::ts_from_nanos;

// ---------------------------------------------------------------------------
// model values / events
// ---------------------------------------------------------------------------

#[derive(Clone, Debug, PartialEq, Eq, Hash, PartialOrd, Ord)]
pub enum MVal {
    I(i64),
    B(bool),
    S(String),
    /// the float n + 0.5 (never integral, so every rendering agrees on its text)
    F(i32),
    /// a typed `emit::Level` (what the level macros attach as `lvl`); not a string
    Lvl(usize),
}

impl MVal {
    pub fn text(&self) -> String {
        match self {
            MVal::I(i) => i.to_string(),
            MVal::B(b) => b.to_string(),
            MVal::S(s) => s.clone(),
            MVal::F(n) => format!("{}", *n as f64 + 0.5),
            MVal::Lvl(l) => LEVEL_NAMES[*l].to_string(),
        }
    }

    /// Typed read of this value: `Some(text of the typed value)` when a value of this kind is a
    /// `ty`, `None` when the cast fails. Integers read as floats (and floats as integers) are
    /// C19's business; the generators never ask for them.
    pub fn cast(&self, ty: Ty) -> Option<String> {
        match (ty, self) {
            (Ty::I64, MVal::I(i)) => Some(i.to_string()),
            (Ty::U64, MVal::I(i)) if *i >= 0 => Some(i.to_string()),
            (Ty::Bool, MVal::B(b)) => Some(b.to_string()),
            (Ty::Str, MVal::S(s)) | (Ty::String, MVal::S(s)) => Some(s.clone()),
            (Ty::F64, MVal::F(_)) => Some(self.text()),
            (Ty::Level, MVal::S(s)) => level_of_text(s).map(|l| LEVEL_NAMES[l].to_string()),
            (Ty::Level, MVal::Lvl(l)) => Some(LEVEL_NAMES[*l].to_string()),
            _ => None,
        }
    }
}

/// The type a filter leaf pulls a property as.
#[derive(Clone, Copy, Debug, PartialEq, Eq, Hash)]
pub enum Ty {
    I64,
    U64,
    Bool,
    Str,
    String,
    F64,
    Level,
}

pub const LEVEL_NAMES: [&str; 4] = ["debug", "info", "warn", "error"];

/// Documented textual level forms: any case, a non-empty prefix of the long names or the
/// abbreviations, optionally followed by non-letter printable ASCII.
pub fn level_of_text(s: &str) -> Option<usize> {
    let letters: String = s.chars().take_while(|c| c.is_ascii_alphabetic()).collect();
    let rest = &s[letters.len()..];
    if letters.is_empty() || !rest.chars().all(|c| c.is_ascii() && !c.is_ascii_control() && !c.is_ascii_alphabetic() && c != ' ') {
        return None;
    }
    let up = letters.to_ascii_uppercase();
    for (w, l) in [("DEBUG", 0), ("DBG", 0), ("INFORMATION", 1), ("WARNING", 2), ("WRN", 2), ("ERROR", 3)] {
        if w.starts_with(&up) {
            return Some(l);
        }
    }
    None
}

impl ToValue for MVal {
    fn to_value(&self) -> Value {
        match self {
            MVal::I(i) => Value::from(*i),
            MVal::B(b) => Value::from(*b),
            MVal::S(s) => Value::from(s.as_str()),
            MVal::F(n) => Value::from(*n as f64 + 0.5),
            MVal::Lvl(l) => Value::from_any(&REAL_LEVELS[*l]),
        }
    }
}

pub type MProps = Vec<(String, MVal)>;

#[derive(Clone, Copy, Debug, PartialEq, Eq, Hash, PartialOrd, Ord)]
pub enum MExt {
    None,
    Point(u64),
    Range(u64, u64),
}

/// Model instants are unix nanos in a u64; `u64::MAX` stands for `Timestamp::MAX` (year 9999,
/// which does not fit) and 0 is `Timestamp::MIN`.
pub const TS_MAX: u64 = u64::MAX;

pub fn ts_real(n: u64) -> Timestamp {
    if n == TS_MAX {
        Timestamp::MAX
    } else {
        ts_from_nanos(n)
    }
}

pub fn ts_model(t: &Timestamp) -> u64 {
    if *t == Timestamp::MAX {
        return TS_MAX;
    }
    let d = t.to_unix();
    d.as_secs().saturating_mul(1_000_000_000).saturating_add(d.subsec_nanos() as u64)
}

/// The instant in real nanoseconds (for lengths).
pub fn real_nanos(n: u64) -> u128 {
    if n == TS_MAX {
        253_402_300_799u128 * 1_000_000_000 + 999_999_999
    } else {
        n as u128
    }
}

impl MExt {
    /// For signatures: which shape of extent the event carries.
    pub fn shape(self) -> &'static str {
        match self {
            MExt::None => "absent",
            MExt::Point(p) if p == 0 || p == TS_MAX => "min-max-point",
            MExt::Point(_) => "point",
            MExt::Range(s, e) if s == e => "empty-range",
            MExt::Range(s, e) if real_nanos(s) > real_nanos(e) => "backwards-range",
            MExt::Range(s, e) if s == 0 || e == TS_MAX => "min-max-range",
            MExt::Range(..) => "forward-range",
        }
    }

    /// `Extent::len()`: a range's length, nothing for a point or when the end is before the start.
    pub fn len(self) -> Option<u128> {
        match self {
            MExt::Range(s, e) => real_nanos(e).checked_sub(real_nanos(s)),
            _ => None,
        }
    }

    pub fn kind(self) -> u8 {
        match self {
            MExt::None => 0,
            MExt::Point(_) => 1,
            MExt::Range(..) => 2,
        }
    }

    pub fn real(self) -> Option<Extent> {
        match self {
            MExt::None => None,
            MExt::Point(p) => Some(Extent::point(ts_real(p))),
            MExt::Range(s, e) => Some(Extent::range(ts_real(s)..ts_real(e))),
        }
    }

    pub fn of(e: Option<&Extent>) -> MExt {
        match e {
            None => MExt::None,
            Some(e) => match e.as_range() {
                Some(r) => MExt::Range(ts_model(&r.start), ts_model(&r.end)),
                None => MExt::Point(ts_model(e.as_point())),
            },
        }
    }
}

#[derive(Clone, Debug, PartialEq, Eq, Hash)]
pub enum TPart {
    Text(String),
    Hole(String),
}

/// Used both for the raw event handed to `emit` (own props, own extent) and for the event as
/// destinations must see it (own ++ ambient, own extent or the clock's reading).
#[derive(Clone, Debug)]
pub struct MEvent {
    pub mdl: String,
    pub tpl: Vec<TPart>,
    pub ext: MExt,
    pub props: MProps,
}

impl MEvent {
    /// The event exactly as the statement says destinations see it.
    pub fn built(&self, ambient: &MProps, clock: Option<u64>) -> MEvent {
        let mut ev = self.clone();
        if ev.ext == MExt::None {
            if let Some(c) = clock {
                ev.ext = MExt::Point(c);
            }
        }
        ev.props.extend(ambient.iter().cloned());
        ev
    }

    pub fn first(&self, key: &str) -> Option<&MVal> {
        self.props.iter().find(|(k, _)| k == key).map(|(_, v)| v)
    }

    /// Run `f` with the real event for this model event (own props as a slice of pairs).
    pub fn with_real<R>(&self, f: impl FnOnce(&Event<&[(String, MVal)]>) -> R) -> R {
        let parts: Vec<emit::template::Part> = self
            .tpl
            .iter()
            .map(|p| match p {
                TPart::Text(s) => emit::template::Part::text_ref(s),
                TPart::Hole(s) => emit::template::Part::hole_ref(s),
            })
            .collect();
        let evt = Event::new(
            Path::new_ref_raw(&self.mdl),
            emit::Template::new_ref(&parts),
            self.ext.real(),
            &self.props[..],
        );
        f(&evt)
    }
}

// ---------------------------------------------------------------------------
// snapshots
// ---------------------------------------------------------------------------

/// What a destination (or a filter leaf) saw / must see.
#[derive(Clone, Debug, PartialEq, Eq, Hash, PartialOrd, Ord)]
pub struct Snap {
    pub mdl: String,
    pub tpl: String,
    pub msg: String,
    pub ext: MExt,
    pub props: Vec<(String, String)>,
}

impl Snap {
    pub fn of<P: Props>(evt: &Event<P>) -> Snap {
        let mut props = Vec::new();
        let _ = evt.props().for_each(|k, v| {
            props.push((k.get().to_string(), v.to_string()));
            ControlFlow::Continue(())
        });
        Snap {
            mdl: evt.mdl().to_string(),
            tpl: evt.tpl().to_string(),
            msg: evt.msg().to_string(),
            ext: MExt::of(evt.extent()),
            props,
        }
    }

    /// Reference rendering: text as is, a hole shows the first value for its label, else `{label}`.
    pub fn model(ev: &MEvent) -> Snap {
        let mut tpl = String::new();
        let mut msg = String::new();
        for p in &ev.tpl {
            match p {
                TPart::Text(s) => {
                    tpl.push_str(s);
                    msg.push_str(s);
                }
                TPart::Hole(l) => {
                    tpl.push_str(&format!("{{{}}}", l));
                    match ev.first(l) {
                        Some(v) => msg.push_str(&v.text()),
                        None => msg.push_str(&format!("{{{}}}", l)),
                    }
                }
            }
        }
        Snap {
            mdl: ev.mdl.clone(),
            tpl,
            msg,
            ext: ev.ext,
            props: ev.props.iter().map(|(k, v)| (k.clone(), v.text())).collect(),
        }
    }

    /// Name of the first field in which two snapshots differ (for signatures).
    pub fn diff(&self, want: &Snap) -> &'static str {
        if self.mdl != want.mdl {
            "module"
        } else if self.ext != want.ext {
            match (self.ext, want.ext) {
                (MExt::None, _) => "extent-missing",
                (_, MExt::None) => "extent-invented",
                _ => "extent-differs",
            }
        } else if self.props != want.props {
            let mut a = self.props.clone();
            let mut b = want.props.clone();
            a.sort();
            b.sort();
            if a == b {
                "props-order"
            } else if self.props.len() < want.props.len() {
                "props-missing"
            } else if self.props.len() > want.props.len() {
                "props-extra"
            } else {
                "props-differ"
            }
        } else if self.tpl != want.tpl {
            "template"
        } else if self.msg != want.msg {
            "message"
        } else {
            "same"
        }
    }

    pub fn json(&self) -> vcommon::Json {
        vcommon::json!({"mdl": self.mdl, "tpl": self.tpl, "msg": self.msg, "ext": format!("{:?}", self.ext),
            "props": self.props.iter().map(|(k, v)| vcommon::json!([k, v])).collect::<Vec<_>>()})
    }
}

// ---------------------------------------------------------------------------
// the per-case log
// ---------------------------------------------------------------------------

pub struct Log {
    /// (recording leaf id, what it was handed)
    pub deliveries: Mutex<Vec<(usize, Snap)>>,
    /// (filter leaf index, what it was shown, what it answered)
    pub fseen: Mutex<Vec<(usize, Snap, bool)>>,
    /// (recording leaf id, timeout handed down)
    pub flushes: Mutex<Vec<(usize, Duration)>>,
    /// `matches` calls per filter leaf index since the case began (never cleared): the state of
    /// stateful leaves, shared by every instance built for that index
    pub counters: Vec<AtomicU64>,
}

impl Log {
    pub fn new(filter_leaves: usize) -> Log {
        Log {
            deliveries: Mutex::new(Vec::new()),
            fseen: Mutex::new(Vec::new()),
            flushes: Mutex::new(Vec::new()),
            counters: (0..filter_leaves).map(|_| AtomicU64::new(0)).collect(),
        }
    }

    /// Clears the per-path logs; the evaluation counters keep running.
    pub fn clear(&self) {
        self.deliveries.lock().unwrap().clear();
        self.fseen.lock().unwrap().clear();
        self.flushes.lock().unwrap().clear();
    }
}

// ---------------------------------------------------------------------------
// filter leaves: predicates over the WHOLE event
// ---------------------------------------------------------------------------

#[derive(Clone, Debug, PartialEq, Eq, Hash)]
pub enum FLeaf {
    Const(bool),
    /// some property has this key (own or ambient)
    HasKey(String),
    /// the first property with this key displays as this text
    FirstEq(String, String),
    MdlEq(String),
    /// 0 = no extent, 1 = point, 2 = range
    ExtKind(u8),
    /// the extent's point (end) is this instant
    TsEq(u64),
    /// number of enumerated properties, duplicates counted
    Count(usize),
    /// the i-th enumerated key
    KeyAt(usize, String),
    /// `ts_start()` is present (the extent is a range)
    StartPresent,
    /// the extent is a range starting at this instant (`as_range().start`)
    StartEq(u64),
    /// `extent.len()` is present (a range whose end is not before its start)
    HasLen(bool),
    /// `extent.len()` is exactly this many nanoseconds
    LenEq(u64),
    /// the extent is a range whose end is before its start
    Backwards,
    /// no property has this key (rejects *because of* an ambient property)
    LacksKey(String),
    /// stateful: accepts its first n evaluations, rejects afterwards (a budget / rate limiter)
    Budget(u64),
    /// typed lookup: `props.pull::<ty>(key)` rendered as text equals this (None = the pull yields
    /// nothing). First value wins; a first value that fails to cast yields nothing.
    Pull(String, Ty, Option<String>),
    /// the stock `emit::level::min_filter(min)` (+ `treat_unleveled_as`)
    MinLevel(usize, Option<usize>),
    /// the stock `MinLevelPathMap` over (path, minimum) registrations with an optional default
    PathMap(Vec<(String, usize)>, Option<usize>),
}

fn model_level_accepts(ev: &MEvent, min: usize, unleveled: Option<usize>) -> bool {
    let level = ev
        .first(emit::well_known::KEY_LVL)
        .and_then(|v| v.cast(Ty::Level))
        .map(|name| LEVEL_NAMES.iter().position(|n| *n == name).unwrap())
        .or(unleveled)
        .unwrap_or(1);
    level >= min
}

static REAL_LEVELS: [emit::Level; 4] = [emit::Level::Debug, emit::Level::Info, emit::Level::Warn, emit::Level::Error];

impl FLeaf {
    /// `calls_before` = how often this leaf was evaluated before (the state of stateful leaves).
    pub fn eval_model(&self, ev: &MEvent, calls_before: u64) -> bool {
        match self {
            FLeaf::Const(b) => *b,
            FLeaf::HasKey(k) => ev.props.iter().any(|(pk, _)| pk == k),
            FLeaf::FirstEq(k, t) => ev.first(k).map(|v| v.text() == *t).unwrap_or(false),
            FLeaf::MdlEq(m) => ev.mdl == *m,
            FLeaf::ExtKind(k) => ev.ext.kind() == *k,
            FLeaf::TsEq(n) => match ev.ext {
                MExt::None => false,
                MExt::Point(p) => p == *n,
                MExt::Range(_, e) => e == *n,
            },
            FLeaf::Count(n) => ev.props.len() == *n,
            FLeaf::KeyAt(i, k) => ev.props.get(*i).map(|(pk, _)| pk == k).unwrap_or(false),
            FLeaf::StartPresent => matches!(ev.ext, MExt::Range(..)),
            FLeaf::StartEq(n) => matches!(ev.ext, MExt::Range(s, _) if s == *n),
            FLeaf::HasLen(b) => ev.ext.len().is_some() == *b,
            FLeaf::LenEq(n) => ev.ext.len() == Some(*n as u128),
            FLeaf::Backwards => matches!(ev.ext, MExt::Range(s, e) if real_nanos(s) > real_nanos(e)),
            FLeaf::LacksKey(k) => !ev.props.iter().any(|(pk, _)| pk == k),
            FLeaf::Budget(n) => calls_before < *n,
            FLeaf::Pull(k, ty, want) => ev.first(k).and_then(|v| v.cast(*ty)) == *want,
            FLeaf::MinLevel(min, unleveled) => model_level_accepts(ev, *min, *unleveled),
            FLeaf::PathMap(regs, default) => {
                // linear scan: longest registered path that is the module or an ancestor at `::`
                let m: Vec<&str> = ev.mdl.split("::").collect();
                let mut best: Option<(usize, usize)> = None;
                for (p, min) in regs {
                    let a: Vec<&str> = p.split("::").collect();
                    if a.len() <= m.len() && a.iter().zip(m.iter()).all(|(x, y)| x == y) && best.map(|(d, _)| d <= a.len()).unwrap_or(true) {
                        best = Some((a.len(), *min));
                    }
                }
                match best.map(|(_, min)| min).or(*default) {
                    Some(min) => model_level_accepts(ev, min, None),
                    None => true,
                }
            }
        }
    }

    pub fn eval_real<P: Props>(&self, evt: &Event<P>, calls_before: u64) -> bool {
        match self {
            FLeaf::Const(b) => *b,
            FLeaf::HasKey(k) => evt.props().get(k.as_str()).is_some(),
            FLeaf::FirstEq(k, t) => evt
                .props()
                .get(k.as_str())
                .map(|v| v.to_string() == *t)
                .unwrap_or(false),
            FLeaf::MdlEq(m) => *evt.mdl() == m.as_str(),
            FLeaf::ExtKind(k) => MExt::of(evt.extent()).kind() == *k,
            FLeaf::TsEq(n) => evt.ts().map(|t| ts_model(t) == *n).unwrap_or(false),
            FLeaf::Count(n) => {
                let mut c = 0usize;
                let _ = evt.props().for_each(|_, _| {
                    c += 1;
                    ControlFlow::Continue(())
                });
                c == *n
            }
            FLeaf::KeyAt(i, k) => {
                let mut c = 0usize;
                let mut hit = false;
                let _ = evt.props().for_each(|pk, _| {
                    if c == *i {
                        hit = pk.get() == k.as_str();
                        return ControlFlow::Break(());
                    }
                    c += 1;
                    ControlFlow::Continue(())
                });
                hit
            }
            FLeaf::StartPresent => evt.ts_start().is_some(),
            FLeaf::StartEq(n) => evt.extent().and_then(|e| e.as_range()).map(|r| ts_model(&r.start) == *n).unwrap_or(false),
            FLeaf::HasLen(b) => evt.extent().and_then(|e| e.len()).is_some() == *b,
            FLeaf::LenEq(n) => evt.extent().and_then(|e| e.len()).map(|d| d.as_nanos() == *n as u128).unwrap_or(false),
            FLeaf::Backwards => evt.extent().map(|e| e.is_range() && e.as_range().map(|r| r.start > r.end).unwrap_or(false)).unwrap_or(false),
            FLeaf::LacksKey(k) => evt.props().get(k.as_str()).is_none(),
            FLeaf::Budget(n) => calls_before < *n,
            FLeaf::Pull(k, ty, want) => {
                let k = k.as_str();
                let p = evt.props();
                let got: Option<String> = match ty {
                    Ty::I64 => p.pull::<i64, _>(k).map(|v| v.to_string()),
                    Ty::U64 => p.pull::<u64, _>(k).map(|v| v.to_string()),
                    Ty::Bool => p.pull::<bool, _>(k).map(|v| v.to_string()),
                    Ty::Str => p.pull::<Str, _>(k).map(|v| v.get().to_string()),
                    Ty::String => p.pull::<String, _>(k),
                    Ty::F64 => p.pull::<f64, _>(k).map(|v| format!("{}", v)),
                    Ty::Level => p.pull::<emit::Level, _>(k).map(|v| v.to_string()),
                };
                got == *want
            }
            FLeaf::MinLevel(min, unleveled) => {
                let f = emit::level::min_filter(REAL_LEVELS[*min]);
                match unleveled {
                    Some(d) => f.treat_unleveled_as(REAL_LEVELS[*d]).matches(evt),
                    None => f.matches(evt),
                }
            }
            FLeaf::PathMap(regs, default) => {
                let mut map = emit::level::min_by_path_filter(regs.iter().map(|(p, min)| (Path::new_owned_raw(p.clone()), REAL_LEVELS[*min])));
                if let Some(d) = default {
                    map.default_min_level(REAL_LEVELS[*d]);
                }
                map.matches(evt)
            }
        }
    }

    pub fn kind(&self) -> &'static str {
        match self {
            FLeaf::Const(_) => "const",
            FLeaf::HasKey(_) => "has-key",
            FLeaf::FirstEq(..) => "first-eq",
            FLeaf::MdlEq(_) => "mdl-eq",
            FLeaf::ExtKind(_) => "ext-kind",
            FLeaf::TsEq(_) => "ts-eq",
            FLeaf::Count(_) => "count",
            FLeaf::KeyAt(..) => "key-at",
            FLeaf::StartPresent | FLeaf::StartEq(_) | FLeaf::HasLen(_) | FLeaf::LenEq(_) | FLeaf::Backwards => "extent",
            FLeaf::LacksKey(_) => "lacks-key",
            FLeaf::Budget(_) => "budget",
            FLeaf::Pull(..) => "typed-pull",
            FLeaf::MinLevel(..) => "min-level-filter",
            FLeaf::PathMap(..) => "min-level-path-map",
        }
    }
}

/// A filter leaf as a plain generic `Filter` (no erasure of its own).
#[derive(Clone)]
pub struct LeafF {
    pub idx: usize,
    pub leaf: FLeaf,
    pub log: Arc<Log>,
}

impl LeafF {
    pub fn answer<P: Props>(&self, evt: &Event<P>) -> bool {
        let before = self.log.counters[self.idx].fetch_add(1, Ordering::SeqCst);
        let a = self.leaf.eval_real(evt, before);
        self.log.fseen.lock().unwrap().push((self.idx, Snap::of(evt), a));
        a
    }
}

impl Filter for LeafF {
    fn matches<E: ToEvent>(&self, evt: E) -> bool {
        self.answer(&evt.to_event())
    }
}

// ---------------------------------------------------------------------------
// recording destination leaves
// ---------------------------------------------------------------------------

#[derive(Clone)]
pub struct RecLeaf {
    pub id: usize,
    pub flush_ok: bool,
    pub log: Arc<Log>,
}

impl RecLeaf {
    pub fn record<P: Props>(&self, evt: &Event<P>) {
        self.log.deliveries.lock().unwrap().push((self.id, Snap::of(evt)));
    }
}

impl Emitter for RecLeaf {
    fn emit<E: ToEvent>(&self, evt: E) {
        self.record(&evt.to_event())
    }

    fn blocking_flush(&self, timeout: Duration) -> bool {
        self.log.flushes.lock().unwrap().push((self.id, timeout));
        self.flush_ok
    }
}

// ---------------------------------------------------------------------------
// clock and fixed ambient context
// ---------------------------------------------------------------------------

const NO_READING: u64 = u64::MAX;

#[derive(Clone)]
pub struct Clk(Arc<(AtomicU64, AtomicU64)>);

impl Clk {
    pub fn new(reading: Option<u64>) -> Clk {
        Clk(Arc::new((AtomicU64::new(reading.unwrap_or(NO_READING)), AtomicU64::new(0))))
    }

    pub fn set(&self, reading: Option<u64>) {
        self.0 .0.store(reading.unwrap_or(NO_READING), Ordering::SeqCst);
    }

    pub fn reads(&self) -> u64 {
        self.0 .1.load(Ordering::SeqCst)
    }
}

impl Clock for Clk {
    fn now(&self) -> Option<Timestamp> {
        self.0 .1.fetch_add(1, Ordering::SeqCst);
        match self.0 .0.load(Ordering::SeqCst) {
            NO_READING => None,
            n => Some(ts_from_nanos(n)),
        }
    }
}

/// Ambient properties in a fixed order, duplicates allowed.
pub struct AmbProps(pub MProps);

impl Props for AmbProps {
    fn for_each<'kv, F: FnMut(Str<'kv>, Value<'kv>) -> ControlFlow<()>>(&'kv self, mut for_each: F) -> ControlFlow<()> {
        for (k, v) in &self.0 {
            for_each(Str::new_ref(k), v.to_value())?;
        }
        ControlFlow::Continue(())
    }
}

/// A context whose current properties are fixed; counts how often it is consulted.
#[derive(Clone)]
pub struct FixedCtxt(Arc<(AmbProps, AtomicU64)>);

impl FixedCtxt {
    pub fn new(props: MProps) -> FixedCtxt {
        FixedCtxt(Arc::new((AmbProps(props), AtomicU64::new(0))))
    }

    pub fn calls(&self) -> u64 {
        self.0 .1.load(Ordering::SeqCst)
    }
}

impl Ctxt for FixedCtxt {
    type Current = AmbProps;
    type Frame = ();

    fn open_root<P: Props>(&self, _: P) -> Self::Frame {}

    fn enter(&self, _: &mut Self::Frame) {}

    fn with_current<R, F: FnOnce(&Self::Current) -> R>(&self, with: F) -> R {
        self.0 .1.fetch_add(1, Ordering::SeqCst);
        with(&self.0 .0)
    }

    fn exit(&self, _: &mut Self::Frame) {}

    fn close(&self, _: Self::Frame) {}
}
