/*!
Metrics sampling next to a live channel (shared by C06 and C08; C09 has the sender-side twin in `c09.rs`).

`Sender::metric_source()` / `Receiver::metric_source()` hand the user's `Sampler` the channel's instrumentation. The
sampler is user code: it may be slow (writes to a socket), it may panic, and - the documented self-monitoring pattern -
it may emit what it is given into the very pipeline it is sampling. None of that may cost an accepted item (C06) or
stop the worker from making progress (C08). Three scenarios per case, each against a real receiver thread
(`sync::spawn`) with a recording processor:

* `parked`   a sampler parks inside one of its callbacks; items sent (and a flush requested) while it is parked must be
             PROCESSED before the monitor releases it. Judged by stamps (processed-before-release), k-of-k repetitions,
             like the C09 twin: a single late repetition is load, three out of three is the sampler holding up the worker.
* `panicking` a sampler panics inside a callback (caught by the caller): afterwards the channel must still accept
             items, process them, flush, and the receiver must still exit when the sender is dropped. Deterministic.
* `reentrant` the sampler's callback sends into the same channel: the sampling call must return, and every item it
             sent must be delivered.

Everything that could hang (a self-deadlocked sampler keeps the channel's lock for good) runs on helper threads with
bounded waits, and whatever such a thread may still hold is forgotten, never touched again.
*/

use std::{
    sync::{
        atomic::{AtomicU64, Ordering::SeqCst},
        Arc, Mutex,
    },
    thread,
    time::{Duration, Instant},
};

use emit_batcher::{bounded, BatchError};
use vcommon::*;

use super::chanvt::{Done, Gate};

type Chan = Vec<u64>;

const PATIENCE: Duration = Duration::from_millis(1500);
const WATCHDOG: Duration = Duration::from_secs(20);
const REPS: usize = 3;

enum Rep {
    Ok,
    Violated(String),
    Inconclusive(String),
}

struct Recv {
    processed: Arc<Mutex<Vec<(u64, u64)>>>, // (item, stamp at on_batch)
    handle: Option<thread::JoinHandle<()>>,
}

fn spawn_recv(receiver: emit_batcher::Receiver<Chan>) -> Recv {
    let processed = Arc::new(Mutex::new(Vec::new()));
    let p2 = processed.clone();
    let handle = emit_batcher::sync::spawn("chan_sampler_rx", receiver, move |batch: Chan| {
        let at = stamp();
        p2.lock().unwrap().extend(batch.into_iter().map(|i| (i, at)));
        Ok::<(), BatchError<Chan>>(())
    })
    .ok();
    Recv { processed, handle }
}

fn wait_processed(recv: &Recv, want: &[u64], limit: Duration) -> bool {
    let start = Instant::now();
    loop {
        {
            let p = recv.processed.lock().unwrap();
            if want.iter().all(|w| p.iter().any(|(i, _)| i == w)) {
                return true;
            }
        }
        if start.elapsed() >= limit {
            return false;
        }
        thread::sleep(Duration::from_millis(2));
    }
}

/// join the receiver thread with a bound; false = it did not exit
fn join_bounded(recv: &mut Recv, limit: Duration) -> Option<thread::Result<()>> {
    let h = recv.handle.take()?;
    let done: Done<thread::Result<()>> = Done::new();
    let d2 = done.clone();
    let _ = thread::Builder::new().name("chan_sampler_jn".into()).spawn(move || d2.set(h.join()));
    done.wait(limit)
}

fn parked_rep(r: &mut Report, g: &mut Rng, cap: usize, park_at: u32, from_receiver_side: bool) -> Rep {
    let (sender, receiver) = bounded::<Chan>(cap);
    let sender = Arc::new(sender);
    let ms_s = sender.metric_source();
    let ms_r = receiver.metric_source();
    let mut recv = spawn_recv(receiver);
    let gate = Gate::new(false);
    let parked: Done<u64> = Done::new();
    let sampler_done: Done<u64> = Done::new();
    {
        let (gate, parked, sampler_done) = (gate.clone(), parked.clone(), sampler_done.clone());
        let _ = thread::Builder::new().name("chan_sampler_sm".into()).spawn(move || {
            use emit::metric::Source as _;
            let seen = std::cell::Cell::new(0u32);
            let f = emit::metric::sampler::from_fn(|_m| {
                let k = seen.get();
                seen.set(k + 1);
                if k == park_at {
                    parked.set(stamp());
                    gate.pass();
                }
            });
            if from_receiver_side {
                ms_r.sample_metrics(f);
            } else {
                ms_s.sample_metrics(f);
            }
            sampler_done.set(stamp());
        });
    }
    if parked.wait(Duration::from_secs(10)).is_none() {
        gate.open();
        return Rep::Inconclusive(format!("the sampler never reached its park point (callback #{park_at})"));
    }
    // while the sampler is parked: send from a helper thread (a send that waits for the sampler is C09's finding; here it
    // must simply not hang the monitor), then wait for the items to be processed
    let n = 1 + g.usize(cap.min(6));
    let items: Vec<u64> = (0..n as u64).map(|k| 1000 + k).collect();
    let sent: Done<u64> = Done::new();
    {
        let (sender, sent, items) = (sender.clone(), sent.clone(), items.clone());
        let _ = thread::Builder::new().name("chan_sampler_tx".into()).spawn(move || {
            for i in items {
                sender.send(i);
            }
            sent.set(stamp());
        });
    }
    let flushed: Done<u64> = Done::new();
    let sent_in_time = sent.wait(PATIENCE).is_some();
    if sent_in_time {
        let f2 = flushed.clone();
        let s2 = sender.clone();
        let _ = thread::Builder::new().name("chan_sampler_fl".into()).spawn(move || {
            s2.when_flushed(move || f2.set(stamp()));
        });
    }
    let processed_in_time = sent_in_time && wait_processed(&recv, &items, PATIENCE);
    let flushed_in_time = processed_in_time && flushed.wait(PATIENCE).is_some();
    let release = stamp();
    gate.open();
    r.observe("sampler:parked:items-sent-while-parked", n as u64);
    let sampler_finished = sampler_done.wait(WATCHDOG).is_some();
    let sent_eventually = sent_in_time || sent.wait(WATCHDOG).is_some();
    let processed_eventually = sent_eventually && (processed_in_time || wait_processed(&recv, &items, WATCHDOG));
    if !sampler_finished || !sent_eventually {
        std::mem::forget(recv);
        return Rep::Inconclusive("the sampler / the sending thread did not come back after the release".into());
    }
    drop(sender);
    let joined = join_bounded(&mut recv, WATCHDOG);
    if !processed_eventually {
        return Rep::Violated(format!("items {:?} sent while a sampler was parked were never processed (receiver exited: {})", items, joined.is_some()));
    }
    if !(sent_in_time && processed_in_time && flushed_in_time) {
        let at = recv.processed.lock().unwrap().iter().filter(|(i, _)| items.contains(i)).map(|(_, s)| *s).max().unwrap_or(0);
        return Rep::Violated(format!(
            "while the sampler was parked (released at stamp {release}): sends returned in time: {sent_in_time}, items processed in time: {processed_in_time} (last processed at stamp {at}), flush callback in time: {flushed_in_time}"
        ));
    }
    r.observe("sampler:parked:processed-and-flushed-before-release", 1);
    Rep::Ok
}

fn panicking_case(r: &mut Report, pid: &str, g: &mut Rng, cap: usize, case: &Json) {
    let (sender, receiver) = bounded::<Chan>(cap);
    let sender = Arc::new(sender);
    let ms_s = sender.metric_source();
    let ms_r = receiver.metric_source();
    let mut recv = spawn_recv(receiver);
    let panic_at = g.below(3) as u32;
    let from_receiver_side = g.bool();
    // a couple of items before, so the receiver is between batches / in its idle wait
    for k in 0..g.below(3) {
        sender.send(10 + k);
    }
    let sampled = run_bounded_local("chan_sampler_pn", WATCHDOG, move || {
        use emit::metric::Source as _;
        catch(|| {
            let seen = std::cell::Cell::new(0u32);
            let f = emit::metric::sampler::from_fn(|_m| {
                let k = seen.get();
                seen.set(k + 1);
                if k == panic_at {
                    panic!("sampler panics on purpose");
                }
            });
            if from_receiver_side {
                ms_r.sample_metrics(f)
            } else {
                ms_s.sample_metrics(f)
            }
        })
    });
    match sampled {
        None => {
            std::mem::forget(recv);
            r.inconclusive(format!("{pid}: panicking sampler: the sampling call did not come back"));
            return;
        }
        Some(Ok(())) => {
            // fewer metrics than panic_at: nothing panicked, nothing to judge
            r.observe("sampler:panicking:sampler-had-fewer-callbacks-than-the-panic-point", 1);
        }
        Some(Err(_)) => r.observe("sampler:panicking:sampler-panicked", 1),
    }
    // afterwards the channel must behave as if nothing had happened: send one item at a time, each followed by a flush
    // (so the queue never overflows, whatever the capacity), each must have been processed when its flush reports success
    let items: Vec<u64> = (0..1 + g.below(4)).map(|k| 2000 + k).collect();
    let mut case = case.clone();
    case["panic_at_callback"] = json!(panic_at);
    case["sampled_from"] = json!(if from_receiver_side { "receiver" } else { "sender" });
    for &item in &items {
        let s2 = sender.clone();
        let sent = run_bounded_local("chan_sampler_ps", WATCHDOG, move || catch(|| s2.send(item)));
        match sent {
            None => {
                std::mem::forget(recv);
                r.violation(&format!("{pid}:metrics:send-hangs-after-panicking-sampler"), "a plain send after a metrics sampler panicked did not return (watchdog 20 s; a plain send never waits)", case);
                return;
            }
            Some(Err(m)) => {
                std::mem::forget(recv);
                r.violation(&format!("{pid}:metrics:send-panics-after-panicking-sampler"), &format!("a plain send after a metrics sampler panicked itself panicked: {m}"), case);
                return;
            }
            Some(Ok(())) => {}
        }
        let s3 = sender.clone();
        let flushed = run_bounded_local("chan_sampler_pf", WATCHDOG, move || catch(|| emit_batcher::sync::blocking_flush(&s3, Duration::from_secs(10))));
        let processed = wait_processed(&recv, &[item], Duration::from_millis(50));
        match flushed {
            Some(Ok(true)) if processed => r.observe("sampler:panicking:items-processed-and-flushed-afterwards", 1),
            Some(Ok(true)) => {
                r.violation(&format!("{pid}:metrics:flush-true-but-unprocessed-after-panicking-sampler"), &format!("flush reported success but item {} (sent alone into an empty queue) was not processed", item), case.clone());
            }
            Some(Ok(false)) | None => {
                let dead = recv.handle.as_ref().map(|h| h.is_finished()).unwrap_or(false);
                if dead {
                    r.violation(
                        &format!("{pid}:metrics:receiver-died-after-panicking-sampler"),
                        &format!("the receiver thread exited although the sender is alive; item {} accepted after a sampler panic was never processed", item),
                        case.clone(),
                    );
                } else {
                    r.inconclusive(format!("{pid}: panicking sampler: flush did not succeed within 10 s although the receiver is alive"));
                }
                std::mem::forget(recv);
                return;
            }
            Some(Err(m)) => {
                std::mem::forget(recv);
                r.violation(&format!("{pid}:metrics:flush-panics-after-panicking-sampler"), &format!("blocking_flush after a metrics sampler panicked itself panicked: {m}"), case);
                return;
            }
        }
    }
    drop(sender);
    match join_bounded(&mut recv, WATCHDOG) {
        Some(Ok(())) => r.observe("sampler:panicking:receiver-exited-after-sender-drop", 1),
        Some(Err(_)) => r.violation(&format!("{pid}:metrics:receiver-panicked-after-panicking-sampler"), "the receiver thread ended with a panic", case),
        None => r.inconclusive(format!("{pid}: panicking sampler: the receiver did not exit within 20 s of the sender being dropped")),
    }
}

fn reentrant_rep(r: &mut Report, cap: usize, from_receiver_side: bool) -> Rep {
    let (sender, receiver) = bounded::<Chan>(cap);
    let sender = Arc::new(sender);
    let ms_s = sender.metric_source();
    let ms_r = receiver.metric_source();
    let mut recv = spawn_recv(receiver);
    let sent_n = Arc::new(AtomicU64::new(0));
    let done: Done<Result<(), String>> = Done::new();
    {
        let (sender, done, sent_n) = (sender.clone(), done.clone(), sent_n.clone());
        let _ = thread::Builder::new().name("chan_sampler_re".into()).spawn(move || {
            use emit::metric::Source as _;
            let res = catch(|| {
                let f = emit::metric::sampler::from_fn(|_m| {
                    let k = sent_n.fetch_add(1, SeqCst);
                    sender.send(3000 + k);
                });
                if from_receiver_side {
                    ms_r.sample_metrics(f)
                } else {
                    ms_s.sample_metrics(f)
                }
            });
            done.set(res);
        });
    }
    match done.wait(PATIENCE) {
        Some(Ok(())) => {}
        Some(Err(m)) => {
            std::mem::forget(recv);
            return Rep::Violated(format!("the sampling call panicked when its callback sent into the sampled channel: {m}"));
        }
        None => {
            // the sampler may hold the channel's lock for good: nothing of this channel is touched again
            std::mem::forget(recv);
            return Rep::Violated("a send made from inside the sampling callback into the sampled channel had not returned when the monitor gave up".into());
        }
    }
    let n = sent_n.load(SeqCst);
    // a plain send into a full queue truncates it, so of the items the callbacks sent only the LAST one is certain to
    // survive (nothing was sent after it); the others are C09's accounting
    let items: Vec<u64> = if n > 0 { vec![3000 + n - 1] } else { vec![] };
    let s2 = sender.clone();
    let flushed = run_bounded_local("chan_sampler_rf", WATCHDOG, move || emit_batcher::sync::blocking_flush(&s2, Duration::from_secs(10)));
    if flushed != Some(true) {
        std::mem::forget(recv);
        return Rep::Inconclusive("flush after a re-entrant sampler did not succeed within 10 s".into());
    }
    let ok = wait_processed(&recv, &items, Duration::from_millis(50));
    drop(sender);
    let _ = join_bounded(&mut recv, WATCHDOG);
    r.observe("sampler:reentrant:items-sent-from-callbacks", n);
    if !ok {
        return Rep::Violated(format!("the last item sent from inside the sampling callback ({} sent, capacity {}) was not processed after a successful flush", n, cap));
    }
    Rep::Ok
}

fn run_bounded_local<T: Send + 'static>(name: &str, limit: Duration, f: impl FnOnce() -> T + Send + 'static) -> Option<T> {
    let done: Done<T> = Done::new();
    let d2 = done.clone();
    let _ = thread::Builder::new().name(name.chars().take(15).collect()).spawn(move || d2.set(f()));
    done.wait(limit)
}

fn k_of_k(r: &mut Report, sig: &str, what: &str, case: Json, mut rep: impl FnMut(&mut Report) -> Rep) {
    r.eval();
    let mut details = Vec::new();
    for _ in 0..REPS {
        match rep(r) {
            Rep::Ok => return,
            Rep::Inconclusive(why) => {
                r.inconclusive(format!("{}: {}", sig, why));
                return;
            }
            Rep::Violated(d) => details.push(d),
        }
    }
    let mut case = case;
    case["repetitions"] = json!(details);
    r.violation(sig, &format!("{} ({} of {} repetitions): {}", what, REPS, REPS, details[0]), case);
}

/// One case = the three scenarios at one capacity. `pid` is "C06" or "C08".
pub fn sampler_case(r: &mut Report, pid: &str, seed: u64, i: u64) {
    let mut g = Rng::stream(seed, &[0x5A3B, i]);
    let cap = *g.pick(&[1usize, 2, 3, 8, 64]);
    let side = g.bool();
    let park_at = g.below(3) as u32;
    let case = json!({"section": "sampler", "seed": seed, "case": i, "capacity": cap, "sampled_from": if side { "receiver" } else { "sender" }, "park_at_callback": park_at});
    k_of_k(
        r,
        &format!("{pid}:metrics:receiver-waits-for-parked-sampler"),
        "items sent while a metrics sampler was parked inside its callback were processed / flushed only after the sampler was released",
        case.clone(),
        |r| parked_rep(r, &mut g, cap, park_at, side),
    );
    r.nontrivial(&("sampler-parked", cap, side, park_at));
    r.eval();
    panicking_case(r, pid, &mut g, cap, &case);
    r.nontrivial(&("sampler-panicking", cap, i % 8));
    k_of_k(
        r,
        &format!("{pid}:metrics:reentrant-sampler:accepted-items-not-delivered"),
        "a sampler whose callback sends into the sampled channel: the call did not return, or what it sent was not delivered",
        case,
        |r| reentrant_rep(r, cap, side),
    );
    r.nontrivial(&("sampler-reentrant", cap, side));
}
