from lanes import *  # noqa

PROP = {
        "level": "exploration",
        "level_text": "Seeded exploration with a reference model as oracle: thousands (quick) to 10^5 (thorough) generated span trees (depth <= 6, fan-out <= 4; sync / async nodes, nodes rejected by a call-site `when:` or by the runtime filter, thread hand-offs through captured frames, async siblings under seeded poll interleavings, incoming ids as typed values / hex strings / integers) incoming trace id without a usable span id, non-span frames captured inside spans and handed to threads / tasks) are executed through the real #[emit::span] / emit::info! macros on a generic Runtime and a type-erased AmbientSlot over ThreadLocalCtxt, on the trace-context runtime (TraceparentCtxt, typed and as emit_traceparent::setup() builds it), on ten runtimes whose context sits behind the crate's forwarding wrappers (&C, Box, Arc, Box<dyn ErasedCtxt>, AssertInternal, Option, stacked) and on a custom list-backed Ctxt that uses the trait's default open_push (repeated keys, innermost first), and SpanCtxt::current read at every program point plus every emitted span / event are compared with an ambient-id model written from the statement. A directed, seeded section (2 000 quick / 40 000 thorough cases on the generic, the AmbientSlot and both trace-context runtimes) covers the `setup:` parameter of the span macros when its fn INSTALLS THE INCOMING TRACE CONTEXT (a guard that pushes and enters a frame with the caller's trace_id / span_id - typed, hex text, or Traceparent::push() - and exits it on drop): sync / async x plain / `guard:` / ok_lvl+err_lvl forms, two nested levels (the first optionally installing a second incoming context through its own `setup:`), optionally inside an enclosing span, with controls (a setup fn that installs nothing, span fns without `setup:`); judged: the span is a child of the incoming span with a fresh id, its body's ambient ids and events are the span's, nested spans are children of this span, the ambient ids revert after each level and after the call. Held-on-what-was-observed over the generated trees and schedules, not a proof over all programs.",
        "level_note": "Trusts the model in harness/mon/src/bin/c04.rs, the interpreter in harness/mon/src/shared/spantree.rs (thread-local routing of events to the tree being run) and vcommon's counting rng (never repeats, never zero). Poll interleavings are those of a seeded single-thread executor; threads are real OS threads joined before the parent continues.",
        "technique": "runtime monitoring: recursive span-tree interpreter written with the real macros + ambient-id reference model at every program point; Miri lane for the erased context frames",
        "assumptions": [
            "the random source never repeats and never returns zero (counting rng); a failing / zero rng is not exercised",
            "incoming ids are only placed in an otherwise empty context (top level); explicit trace ids in span props are C18's business",
            "on the trace-context runtimes every node of the tree is enabled (a span rejected by a filter unsamples its subtree there by design, which is C18's subject)",
            "text of ids on events that read pushed integer ids straight from the context is compared numerically (decimal), everything else as hex",
            "setup-param section: async span fns whose setup guard stays entered across awaits are only polled by an executor that runs nothing else on the thread; on the trace-context runtimes a NESTED incoming context is installed through Traceparent::push() only (plain id props under an active traceparent are a child of it by design, C18)",
        ],
        "lanes": [
            native("c04"),
            # ~5 s per tree under Miri (measured): 8 trees per seed, alternating the two runtimes
            miri("c04", seeds_q=0, seeds_t=8, scale=1, args={"trees": 8}),
        ],
    }
