from lanes import *  # noqa

PROP = {
        "level": "exploration",
        "level_text": "Seeded exploration with a reference model as oracle: 10^6 (quick) to 10^7 (thorough) SpanGuard programs - any order and multiplicity of with_mdl / with_name / with_props / map_props / with_completion / start / complete / complete_with / drop on a guard with type-erased parameters, enabled or disabled by a filter, inside or outside its frame, under a clock that advances, goes backwards or is unavailable between any two operations - each checked for the number of completions per completion object, the returned bools, is_enabled and the content of the completed span; plus every hand-written macro form (span attribute on sync / async fns, level-specific attributes, guard:, ok_lvl / err_lvl / err / panic_lvl, new_span!) x every exit path (fall-through, early return, Err, ?, caught panic) x enabled / disabled, checked for exactly one span event with the lvl / err the exit path calls for; plus 24 macro sites (Result-aware ok_lvl / err_lvl / err shapes on #[span] and the level-named attributes, sync / async, with plain and guard: forms as controls) x every exit path x filters that accept the span at its start and would reject the completed span's event if asked again (the real level::min_filter at every level as runtime filter or as when:, a stateful budget filter that says yes k = 0, 1, 2 times, a when: filter over a runtime filter that rejects) x a generic Runtime and the type-erased runtime of an AmbientSlot, checked for exactly one span event iff the deciding filter accepted the span at its START level. Held-on-what-was-observed over the generated programs, not a proof over all programs.",
        "level_note": "Trusts the sequential guard model and the lvl/err table in harness/mon/src/bin/c05.rs (the table follows the documented control parameters: panic => panic_lvl or error + err; Err => err_lvl, else the attribute's level, else error; Ok => ok_lvl, else the attribute's level). Attributes on block expressions need nightly features and are only exercised in the Miri lane.",
        "technique": "runtime monitoring: completion counting per guard / invocation against a sequential model; hand-written macro forms x exit paths; Miri lane (tiny) that also builds the block forms",
        "assumptions": [
            "when the clock gives no reading at start or at completion the statement does not fix the extent; for SpanGuard programs and completions that go through completion::Default / Timer::extent (documented: None without a reading) an extent, if present, must be the range of two readings that exist; the Result-aware completions (ok_lvl / err_lvl / err) are only counted there (they emit a point extent from a third reading on the pinned tree)",
            "ids on the span event are only required when it is completed inside its frame by the real default completion",
            "user props that collide with the span's own keys (evt_kind, span_name) are not generated",
            "whether a span is enabled is decided once, by the first answer of the deciding filter (the call-site when: filter if there is one - C01: it replaces the runtime's -, else the runtime's filter) to the span shown at the level of its attribute (unleveled = the documented default, info, for MinLevelFilter); the completion - default, panic, cancellation, Ok and Err alike - is not subject to a filter again; how often a filter is asked is counted, not judged",
        ],
        "lanes": [
            native("c05"),
            # ~0.3 s per evaluation under Miri (measured): 60 guard programs + a quarter of the macro sites per seed (4 seeds cover all)
            miri("c05", seeds_q=0, seeds_t=4, scale=1, args={"programs": 60}),
            gen("C05"),
        ],
    }
