from lanes import *  # noqa

PROP = {
        "level": "exploration",
        "level_text": "Schedule exploration with a tagged-component oracle: thousands (quick) to hundreds of thousands (thorough) of rounds, each with a fresh AmbientSlot, 2-16 initialisers racing through emit::setup()...try_init_slot / init_slot with five tagged components each, 0-8 observers spinning on is_enabled() / get() while emitting, opening spans and flushing, and use of the empty slot before and of the initialised slot after the race. Every get() is probed for all five components; per-thread and cross-thread (SeqCst-stamp ordered) monotonicity, single success, inertness before initialisation and winner-only delivery are judged per round. The same monitor runs under Miri (UB check of the *const dyn -> &dyn runtime cast, data-race check of the once-cell publication, Miri's seeded scheduler as a second source of interleavings) in both tiers and under ThreadSanitizer in the thorough tier. Held on the interleavings that the OS / Miri schedulers produced (counted: overlapping attempts, distinct winner indices, threads that saw both phases), not over all schedules.",
        "level_note": "Trusts the tagged components and the thread-local logs in harness/mon/src/bin/c20.rs; the cross-thread rule relies on a global SeqCst stamp counter (a step that started after another thread's step had finished observing the slot enabled happens-after it). 'For the rest of the process' is observed until the end of the round.",
        "technique": "runtime monitoring: racing initialisers and observers over a fresh slot per round, tagged components identify which configuration every call and every delivered event went through; Miri and ThreadSanitizer builds of the same monitor",
        "assumptions": [
            "interleavings are those the OS scheduler (native, TSan) and Miri's seeded scheduler produce; rounds in which attempts really overlapped are counted in the evidence",
            "which initialiser wins, and whether a loser that was told None already sees the slot enabled, are unconstrained",
            "how many of the events emitted through the winner are delivered is C01's business; only 'delivered => through the winner's five components' is judged during the race",
        ],
        "lanes": [
            native("c20"),
            miri("c20", seeds_q=4, seeds_t=64, scale=1,
                 args={"max-init": 4, "max-obs": 2, "rounds": {"quick": 2, "thorough": 5}},
                 timeout={"quick": 600, "thorough": 3000}),
            san("tsan", "c20", scale=5),
        ],
    }
