from lanes import *  # noqa

PROP = {
        "level": "exploration",
        "level_text": "Seeded exploration with the original value as oracle: 80 hand-written macro call sites (every capture attribute x value class, plus 12 with two stacked capture attributes, each expanded through evt!, props!, emit!, the level macros debug!/info!/warn!/error!, dbg! alone / among several values / with a template through the process-wide runtime, #[emit::span] arguments and new_span!, and once more with the same key shadowed by a value of another primitive type in base `props:` and / or an ambient frame, where every typed read - pull::<T> and get().cast::<T>() for 17 target types on the concrete event, its erased form, by_ref and owned / shared copies - must equal the captured value's own cast; every second case also emits a WIDE event - 20..24, 32..40 or 64..100 properties over the call site, base props and three ambient frames, unsorted keys, `val` shadowed three times - where props().dedup() on the concrete and the erased event must show each key once with the FIRST value of the enumeration order and `val` as the call-site value with its type) are driven with 10^5 (quick) to 2*10^6 (thorough) generated values - primitives at their extremes, hostile strings, nested structs/enums/options/sequences/maps with string/char/int/bool/float keys, error chains - and every captured value is read back on nine paths (direct, erased, props!, recording emitter behind a runtime, to_owned, to_shared, clone of shared, ThreadLocalCtxt frame, another thread) and compared with the original: typed pulls (bit-exact floats), Display/Debug text, serde_json / sval_json text against direct serialisation of the original by the same consumer for serde- and sval-captured values, error source chains, absence of a key for None. Miri and ASan run the same monitor at small scale over the unsafe Str / value-bag ownership paths (to_owned, to_shared, cross-thread moves). Held-on-what-was-observed, not a proof over all values or programs; a generated-programs lane is added separately.",
        "level_note": "Trusts vcommon::model (hand-written serde/sval impls mirroring the derives, checked in every run against an independently computed JSON image by a strict parser written for the harness), serde_json and sval_json as reference consumers of the ORIGINAL value, and std formatting of the original as the Display/Debug reference.",
        "technique": "runtime monitoring: reference-oracle monitor over hand-written capture call sites x seeded model values x read paths; Miri + ASan lanes over the same monitor",
        "assumptions": [
            "the reference for every comparison is the original value observed through the same consumer (serde_json / sval_json / std fmt), so defects shared by direct and captured serialisation inside those dependencies are not visible",
            "on buffered paths (owned, shared, ctxt, thread) only numbers, booleans, strings and serde/sval-captured structures are constrained, as the statement lists; Display/Debug-captured values and error chains are checked there for absence of panics only",
            "f32 is stored widened to f64 (no FromValue for f32) and char has no typed conversion: f32 is checked through pull::<f64>() == v as f64, char through its text and JSON images",
            "map key kinds are limited to those on which serde_json and sval_json agree when serialising the original directly (string, char, integer, bool, finite float); unit structs are compared same-framework, either rendering is accepted across frameworks",
        ],
        "lanes": [
            native("c19"),
            miri("c19", seeds_q=0, seeds_t=24, args={"cases": 8}, timeout={"thorough": 2400}),
            san("asan", "c19", scale=5),
            # "via each sink": the sink monitor of C13 run under this property (C13's own known findings stay with C13)
            native("c13", pkg="monx", name="sinks", borrow="C13"),
        ],
    }
