from lanes import *  # noqa

PROP = {
        "level": "exploration",
        "level_text": "Seeded and exhaustive-sub-space exploration with a reference classifier as oracle: every parser entry point is run under catch_unwind on 10^7 (quick) to 10^8+ (thorough) inputs - all strings up to length 3-4 over each parser's alphabet, every single-edit neighbour of thousands of well-formed texts, random strings - every parser that can be reached by casting a property value is additionally run with the same text arriving in an owned buffer, a shared buffer and as the Display output of a foreign type (all entry points of a parser must agree), and every value round trip is compared with an independent calendar / hex reference; calendar parts are converted both ways for every day 1970..9999. Round trips are also generated from PARTIAL values: traceparents with the trace id absent, the span id absent or both absent x all 256 flag bytes x edge and seeded ids (formatted through 7 entry points, parsed back through 8, formatting judged injective over neighbouring states), the values the crate builds itself (Traceparent::push + current, an incoming span context without a trace id), tracestates, span contexts in all 8 presence combinations through their property text, extents (point, empty, ordinary and inverted range, at Timestamp::MIN / MAX), typed ids / timestamps / levels / kinds captured as values and cast back from owned and shared copies, and every storage form of a path. Held-on-what-was-observed, not a proof over all strings.",
        "level_note": "Trusts the reference classifiers in harness/mon/src/bin/c15.rs (written from the documented grammars) and std's catch_unwind; the unconstrained classes listed in DESIGN.md C15/U are checked for totality only.",
        "technique": "runtime monitoring: reference-oracle monitor over exhaustive short strings, grammar near-misses and seeded random inputs, all calls under catch_unwind",
        "assumptions": [
            "reference classifiers (RFC 3339 shape, hex ids, traceparent layout, `::` paths, documented level forms) are written from the property statement, not from the parsers",
            "digits that are in the right places but out of calendar range, all-zero ids inside a traceparent, lower-case t/z and non-ASCII identifiers are unconstrained (totality only)",
            "partial values: an absent id of a traceparent is written as the all-zero id (the W3C invalid value; no present id can be all-zero), so formatting is injective and no state is normalised away - parse(format(v)) == v is judged whenever the parser accepts the text, and that it accepts its own all-zero-id output is not demanded (unconstrained above), only counted",
            "the crate has no extent parser: an extent's text is read back with the timestamp parser on its `..`-separated halves when it has that shape (else only injectivity and the agreement of the formatting entry points are judged); a tracestate is raw text (identity only); Level and Kind have no value outside the named variants",
        ],
        "lanes": [
            native("c15"),
            native("c15", name="release", tiers=T, profile="release", scale=25),
        ],
    }
