from lanes import *  # noqa

PROP = {
        "level": "exploration",
        "level_text": "Seeded and exhaustive-sub-space exploration with a reference classifier as oracle: every parser entry point is run under catch_unwind on 10^7 (quick) to 10^8+ (thorough) inputs - all strings up to length 3-4 over each parser's alphabet, every single-edit neighbour of thousands of well-formed texts, random strings - every parser that can be reached by casting a property value is additionally run with the same text arriving in an owned buffer, a shared buffer and as the Display output of a foreign type (all entry points of a parser must agree), and every value round trip is compared with an independent calendar / hex reference; calendar parts are converted both ways for every day 1970..9999. Held-on-what-was-observed, not a proof over all strings.",
        "level_note": "Trusts the reference classifiers in harness/mon/src/bin/c15.rs (written from the documented grammars) and std's catch_unwind; the unconstrained classes listed in DESIGN.md C15/U are checked for totality only.",
        "technique": "runtime monitoring: reference-oracle monitor over exhaustive short strings, grammar near-misses and seeded random inputs, all calls under catch_unwind",
        "assumptions": [
            "reference classifiers (RFC 3339 shape, hex ids, traceparent layout, `::` paths, documented level forms) are written from the property statement, not from the parsers",
            "digits that are in the right places but out of calendar range, all-zero ids inside a traceparent, lower-case t/z and non-ASCII identifiers are unconstrained (totality only)",
        ],
        "lanes": [
            native("c15"),
            native("c15", name="release", tiers=T, profile="release", scale=25),
        ],
    }
