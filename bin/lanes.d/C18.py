from lanes import *  # noqa

PROP = {
        "level": "exploration",
        "level_text": "Seeded exploration with a reference model as oracle: thousands (quick) to 10^5 (thorough) generated span trees with a seeded sampler table are executed through the real #[emit::span] / emit::info! macros on four builds of the trace-context runtime (generic Runtime and emit_traceparent::setup_with_sampler in an AmbientSlot, each with and without in_sampled_trace_filter(true), plus eight runtimes whose TraceparentCtxt sits behind a forwarding wrapper: AssertInternal, &, Box, Arc, Option, Box<dyn ErasedCtxt> and two stacked pairs); roots start with no header, under sampled / unsampled / invalid headers pushed with Traceparent::push / push(tp, tracestate), headers are pushed around arbitrary children (other trace, same trace, invalid), nodes carry mismatched explicit trace ids, children run on other threads (captured frames and fresh threads under a header formatted from Traceparent::current()) and as async siblings under seeded poll interleavings. The sampler log, every emitted span / event and Traceparent::current() read at every program point are compared with a current-traceparent model written from the statement. Held-on-what-was-observed over the generated trees, tables and schedules, not a proof.",
        "level_note": "Trusts the model in harness/mon/src/bin/c18.rs and the interpreter in harness/mon/src/shared/spantree.rs. in_sampled_trace_filter(false) and call-site `when:` are out of scope by design (DESIGN.md C18/U); partially invalid headers (only one of the ids zero) are not generated; events inside an unsampled trace WITHOUT the sampled-trace filter are unconstrained.",
        "technique": "runtime monitoring: span-tree interpreter on the trace-context runtime + sampler log + current-traceparent reference model at every program point; Miri lane (raw pointer in TraceparentCtxtProps, erased frames)",
        "assumptions": [
            "only the sampled bit of the flags is compared for spans; a pushed header must be returned by Traceparent::current() byte for byte",
            "the trace id of a new trace whose root carries an explicit trace_id property is unconstrained (only: present, consistent below, equal to what the sampler was shown)",
            "the counting rng never repeats and never returns zero",
        ],
        "lanes": [
            native("c18"),
            # 3-18 s per tree under Miri (measured): 6 trees per seed, rotating over the four runtimes
            miri("c18", seeds_q=0, seeds_t=8, scale=1, args={"trees": 6}),
        ],
    }
