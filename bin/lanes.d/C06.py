from lanes import *  # noqa

PROP = {
    "level": "exploration",
    "level_text": "Seeded exploration of the real emit_batcher channel under scripted actors (1-6 senders mixing send / try_send / blocking_send / tokio send, 0-3 flushers, 0-2 empty-watchers), three receiver flavours (sync::spawn, Receiver::exec on a hand-polled executor with virtual waits, tokio::spawn), a scripted processor (Ok / no-retry / retry with seeded remainder / panic / panic inside the future / slow) and capacities 1-64 and large. Every history is judged offline from call/return stamps only: no invention or duplication, retry = exactly the returned remainder (retry budget measured at start-up), delivery order never contradicts real-time send order, accepted = delivered + truncated with each truncation removing exactly one full queue and counted by the metric; about a third of the histories are sequential ones in which actor operations are injected at the receiver's scheduling points and every step is compared with a queue model through verif_snapshot(). Schedule diversity comes from the H-B hook (seeded yields / spins / sleeps between critical sections, operations aimed at receiver windows), from Miri's seeded scheduler and from TSan-instrumented runs; the evidence counts the distinct interleaving signatures and batch partitions actually produced. Held-on-what-was-observed: 'every interleaving' means every interleaving produced, not all. Metrics sampling next to a live channel (a sampler that parks, panics or sends into the sampled channel from its callback) is exercised against a real receiver thread: nothing accepted afterwards may be lost and the receiver must survive.",
    "level_note": "Trusts the checker in harness/mon/src/shared/chan.rs, the placement of the H-B scheduling points (used by the sequential queue model to know when the swap-out happens) and vcommon::stamp() (one SeqCst counter: 'return stamp < call stamp' implies real-time precedence). Truncated items are known exactly because the harness supplies its own Channel implementation whose clear() records what it removed.",
    "technique": "runtime monitoring: offline history checker (no-dup, remainder, order, conservation, queue model) over seeded channel scenarios with hook-injected schedules; Miri and ThreadSanitizer lanes run the same monitor",
    "assumptions": [
        "panicking user watchers: in half of the plans 15% / 40% of the when_flushed / when_empty callbacks panic (quietly) when the receiver runs them (callbacks that run at once on the caller's thread never panic); the usual exactly-once / order / conservation oracle applies unchanged to those histories and a receiver thread / future that dies with a panic is a violation (C06:receiver-died:after-panicking-watcher:<on-take|on-flush>:...)",
        "quiescence step (60% of the histories that keep their receiver): after the last sender operation has returned and before any flush / drop / further send, every accepted item (minus truncations) must have been handed to the processor by the time the receiver has begun 3 further idle waits (counted at the RecvBeforeIdleWait scheduling point, not by the clock); the last operation is delayed at its own lock point (SendLock / TrySendLock) until the receiver has made an empty pass, or the receiver is held between its empty pass and its idle wait; if the receiver does not begin 3 idle waits within a wall-clock watchdog (5 s) the step is inconclusive",
        "a receiver thread that does not exit within 10 s after the sender was dropped is left behind and the history is inconclusive; after 3 such histories the lane stops and says so",
        "the retry budget is a constant of the channel: it is measured once per run (always-retry batches of several sizes) and a give-up before that many retries counts as a dropped remainder",
        "items still pending at teardown are tolerated only in scenarios that drop the receiver (the exec future) early; after the sender is dropped a live receiver must deliver everything that is queued",
        "the processor only asks for retries of items it was handed (sub-sequences in order); remainders containing foreign items are not generated",
        "a plain send on a closed channel is a silent no-op and is only reachable after an early receiver drop (unconstrained there)",
    ],
    "lanes": [
        native("c06"),
        # one `cargo miri run` per seed; each runs a few tiny multi-threaded histories (~1.5 s each)
        miri("c06", seeds_q=8, seeds_t=320, scale=100, args={"histories": {"quick": 4, "thorough": 6}}),
        # all three receiver flavours: tokio was quiet under TSan (-Zbuild-std) in this sandbox
        san("tsan", "c06", scale=10),
    ],
}
