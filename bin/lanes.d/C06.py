from lanes import *  # noqa

PROP = {
    "level": "exploration",
    "level_text": "placeholder",
    "level_note": "placeholder",
    "technique": "runtime monitoring: offline history checker over seeded channel scenarios",
    "assumptions": [],
    "lanes": [
        native("c06"),
    ],
}
