from lanes import *  # noqa

PROP = {
    "level": "exploration",
    "level_text": "Channel-level part of C07 (the end-to-end file / OTLP parts are decided by other lanes). Seeded exploration of the real emit_batcher channel with a flush-focused mix: 1-3 concurrent flushers using when_flushed callbacks, sync::blocking_flush, tokio flush and tokio blocking_flush with timeouts from 0 to 20 ms, a slow / failing / retrying / panicking scripted processor, overflow truncation, and flush requests aimed through the H-B hook at the racy windows (receiver about to swap, between swap-out and on_batch, before a retry wait, before the watchers are notified, before an idle wait); sequential histories inject the flush at those scheduling points deterministically. Oracle over the merged stamp log: for a flush requested at c and completed at d, every item whose send returned before c was truncated before d, or all its on_batch attempts returned before d and none starts after d. Callback completion stamps are exact; blocking / async completion stamps are taken after the call returned true, which can hide but never invent a violation. Held-on-what-was-observed over the interleavings actually produced (counted in the evidence), plus Miri's scheduler and TSan.",
    "level_note": "Trusts the checker in harness/mon/src/shared/chan.rs and vcommon::stamp(). Scenarios that drop the receiver early are excluded from the oracle (the statement says 'while the receiver is alive'). Blocking / async flushes that time out make no claim and are not judged.",
    "technique": "runtime monitoring: flush-vs-attempts rule over call/return stamps of seeded channel scenarios with hook-aimed flush requests; Miri and ThreadSanitizer lanes run the same monitor; valgrind memcheck build of the file end-to-end lane (thorough)",
    "assumptions": [
        "quiescence step: a callback flush requested right after the last sender operation (nothing else touching the channel, no processor call failing) must have completed by the time the receiver has begun 3 further idle waits (counted at the RecvBeforeIdleWait scheduling point); a watchdog expiry is inconclusive",
        "an item counts as 'sent before the flush' only if its send returned (return stamp) before the flush was requested (stamp taken before the call)",
        "an item that never reaches the processor counts as discarded only if the harness's Channel implementation saw it removed by clear() (= overflow truncation) before the flush completed",
        "scenarios that drop the receiver early are excluded",
    ],
    "lanes": [
        native("c07"),
        miri("c07", seeds_q=8, seeds_t=320, scale=100, args={"histories": {"quick": 4, "thorough": 6}}),
        # all three receiver flavours: tokio was quiet under TSan (-Zbuild-std) in this sandbox
        san("tsan", "c07", scale=10),
        native("c07x", pkg="monx", name="files-e2e"),
        memcheck("c07x", name="memcheck-files-e2e", scale=3, timeout={"thorough": 3600}),
        san("tsan", "c07x", pkg="monx", name="tsan-files-e2e", scale=10, timeout={"thorough": 3600}),
        script("strace", "c10-strace", tiers=T, args={"prop": "C07"}),
        native("c07o", pkg="monx", name="otlp-e2e", args={"prop": "C07"}),
    ],
}
