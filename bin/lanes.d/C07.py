from lanes import *  # noqa

PROP = {
    "level": "exploration",
    "level_text": "placeholder",
    "level_note": "placeholder",
    "technique": "runtime monitoring",
    "assumptions": [],
    "lanes": [
        native("c07"),
        miri("c07", seeds_q=6, seeds_t=240, scale=100, args={"histories": {"quick": 3, "thorough": 4}}),
        san("tsan", "c07", scale=10),
    ],
}
