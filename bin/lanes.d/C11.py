from lanes import *  # noqa

PROP = {
        "level": "exploration",
        "level_text": "Seeded exploration of the real emit_file worker (Worker::on_batch through the cfg(emit_rs_emit_verif) hook) over an in-memory filesystem that logs every call: 200 000 (quick) / 16 000 000 (thorough) generated cases = configuration (roll by day/hour/minute, max_files 1-6/32/1000, size limits from 1 B, reuse on/off, prefixes and extensions that extend or are extended by a sibling set's, prefixes with dots, six directory spellings) x pre-existing directory contents (foreign files, sibling sets with well-formed names, look-alikes, older / future / other-granularity members) x clock trajectory (zero advance, sub-millisecond, jumps onto and over period boundaries, backward steps, leap day / year end; in three quarters of the cases the injected clock additionally ADVANCES ON EVERY READING by a step between 1 ns and 7.3 s and batches are placed within two steps before a period or millisecond boundary, the monitor counts the reads per on_batch and judges names against every reading taken during that batch) x batch history with clean restarts, injected failures and file-id collisions. A reference oracle written from the property statement (civil-from-days period, exact name grammar, size arithmetic on the observed file lengths, smallest-name-first retention, membership of every path touched) is evaluated after every on_batch attempt. Held-on-what-was-observed, not a proof over all configurations.",
        "level_note": "Trusts the in-memory filesystem and the reference oracle in harness/monx/src/bin/c11.rs + shared/fakefs.rs. The end-to-end lane additionally runs the whole pipeline with a stalled filesystem to cover the channel's overflow truncation; the strace lane checks on the real filesystem that nothing outside the set is opened for writing or unlinked with a sibling set in the same directory.",
        "technique": "runtime monitoring: naming / roll / retention / membership reference oracle over the op log and state of an in-memory filesystem under the real worker; end-to-end lane; strace lane; valgrind memcheck run of the same monitor (thorough)",
        "assumptions": [
            "a member is a name with the exact grammar prefix.YYYY-MM-DD[-HH[-MM]].8 digits.8 hex.ext; names that match a looser reading (digits-and-dashes that are not a date shape) are not generated and left unconstrained",
            "the retention bound is not required while a directory listing or a deletion failed (injected) until the next file creation; the roll rule is only evaluated between two successful batches with no restart or failed attempt in between",
            "the value of the counter field is not constrained (only its grammar); the ordering claim is checked between files the set itself created while no clock reading went backwards, and only among files that still exist; the listed known finding is recognised only when the two NAMES carry the same period and the same millisecond counter AND some reading of either creating batch falls into one common millisecond (on the current tree the two conditions coincide; a name tie without a clock tie is a separate signature)",
            "when the readings taken during one on_batch straddle a period boundary, both keeping the current file and rolling are accepted (the statement does not say which reading decides)",
            "after every successful batch the file that received its writes must still be a member of the directory and must not have been deleted by that batch's own retention; the generator reaches full sets in which the new file sorts below existing members (backward clock steps, pre-existing future-dated members, max_files 1-3)",
            "max_files = 0 is outside the statement and not generated",
        ],
        "lanes": [
            native("c11", pkg="monx", scale={"quick": 100, "thorough": 400}),
            native("c09x", pkg="monx", name="e2e-overflow", args={"prop": "C11"}),
            memcheck("c11", scale=1, timeout={"thorough": 3600}),
            {"name": "strace", "kind": "script", "script": "c10-strace", "tiers": QT, "args": {"prop": "C11"}},
        ],
    }
