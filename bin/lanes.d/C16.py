from lanes import *  # noqa

PROP = {
    "level": "exploration",
    "level_text": "TODO",
    "level_note": "TODO",
    "technique": "runtime monitoring: reference renderer and normal-form equality over seeded part sequences and fixed macro literals",
    "assumptions": [],
    "lanes": [
        native("c16"),
    ],
}
