from lanes import *  # noqa

PROP = {
    "level": "exploration",
    "level_text": "Seeded exploration with a reference renderer and normal-form equality as oracle: 300 k (quick) to 12 M (thorough) seeded part sequences over an alphabet with 1-4 byte characters, braces and spaces (empty fragments, adjacent fragments, repeated and empty labels, holes with formatters), each built in every construction variant (borrowed, 'static, owned, shared Str, by_ref, to_owned, clone, new_owned, literal), rendered through Display, Render::write into a String, a writer that only has the trait defaults, a callback-recording writer (plain write_str output is recorded separately and never expected), a writer whose write_text transforms text character by character and marks holes and raw write_str output differently (so every text fragment must arrive through write_text, for zero-part, one-text-part / literal and multi-part templates alike, and differently split equal templates must produce identical output), Template's own Display and Event::msg(), with property sets that contain duplicates and absences; `==` is asked in both argument orders on re-splittings, one-edit neighbours, independently drawn (unrelated) pairs and all variants of one model, plus reflexivity and transitivity over every triple of five related templates, all under catch_unwind. One seeded case and one unrelated-pair block in four take every text fragment, hole label and property key as a sub-slice of ONE shared buffer (prefixes that start at the same address with different lengths such as user / user_id or the ancestors of a dotted name, the empty prefix, suffixes, infixes, equal text at different addresses) through literal_ref / new_ref / text_ref / hole_ref / hole_str(Str::new_ref) and borrowed &str / Str keys, plus 22 hand-written templates over the buffers 'user_id', 'a.b.c' and 'ab.ab' compared pairwise and rendered with keys from the same buffer; the model compares by content only. 56 fixed tpl!/evt!/format! literal call sites are compared with the runtime-built template of the same literal and, for #[emit::fmt] flags, with std::format!. Held-on-what-was-observed, not a proof over all texts; the generated-programs lane for literals is added separately.",
    "level_note": "Trusts the reference renderer / normal form in harness/mon/src/bin/c16.rs and that Value's Display of i64 / f64 / bool / str equals the std text of the same value (checked at start-up; a mismatch makes the run inconclusive instead of blaming templates). The Miri lane watches Str's raw-pointer ownership (owned / shared / borrowed text and labels through to_owned, by_ref, clone and drop) and the byte-offset slicing in PartialEq while the same workload runs at tiny scale.",
    "technique": "runtime monitoring: reference renderer and normal-form equality over seeded part sequences, hand-written boundary pairs and fixed macro literals; Miri build of the same monitor",
    "assumptions": [
        "hole formatters are compared by applying the same function to the model value directly (the formatter is part of the input, not of the template code)",
        "whether an empty text fragment produces a write_text callback is not settled by the statement: callbacks are compared after merging adjacent text and dropping empty text",
        "equality ignores hole formatters (labels only), as the statement says 'the same holes in the same positions'",
        "writers that return errors are out of scope of the statement and not exercised",
        "macro literals are a fixed hand-written set here; the generated-programs lane covers 'all template literals accepted by the macros'",
    ],
    "lanes": [
        native("c16"),
        miri("c16", seeds_q=0, seeds_t=16, scale=100),
            gen("C16"),
        ],
}
