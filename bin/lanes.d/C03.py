from lanes import *  # noqa

PROP = {
        "level": "exploration",
        "level_text": "Seeded exploration with a reference model as oracle: thousands (quick) to hundreds of thousands (thorough) of generated well-nested programs over the real frame API - push/root/disabled/current x enter-guard/with/call/in_fn/in_future, re-entered frames, frames carried to other threads and tasks, 2-4 context instances (ThreadLocalCtxt and emit_traceparent::TraceparentCtxt<ThreadLocalCtxt>, created on different threads, obtained through every construction route: new(), shared() - also twice -, Default::default(), emit::setup()...init_slot(slot) runtimes on separate AmbientSlots as an application and a library would hold them, and copies / clones of another instance) reached through 14 handle types (inline and boxed ErasedFrame payloads), futures interleaved on a hand-written single-threaded executor, cancellation, migration between threads, seeded panics under catch_unwind - with with_current (and, for traceparent instances, the contributed trace ids and Traceparent::current()) compared against a stack-of-maps model plus a per-thread traceparent stack at every program point on every thread. Which instances share a model stack is decided by an identity oracle taken from the type's documentation: two instances are the same context iff one is a copy / clone of the other or both are shared(); anything else - two default()s, default() next to shared(), two setup() runtimes - is isolated (a frame entered on one is invisible through the other, a push on one does not inherit the other's properties, a root frame on one does not hide the other's). Every process also runs a fixed 24-pair matrix of construction routes (both orders, reads by value / through the slot-held runtime / a third handle, events through both runtimes) against that oracle before the generated programs. The same monitor runs under Miri (aliasing / uninitialised / dangling / leaks / data races in the ErasedFrame union, the ManuallyDrop frame, the FrameFuture pin projection) in both tiers and under ThreadSanitizer in the thorough tier. Held-on-what-was-observed over sampled programs and OS/Miri-chosen schedules, not a proof over all programs.",
        "level_note": "Trusts the stack-of-maps model in harness/mon/src/bin/c03.rs (written from the property statement), the generator's well-nestedness (out-of-stack-order exits are never produced) and the delegating Pad ctxt used to force boxed ErasedFrame payloads. Observation is through Ctxt::with_current and through the ambient properties of events emitted via an AmbientSlot-held runtime.",
        "technique": "runtime monitoring: generated frame programs interpreted against the real API in lock-step with a reference model; Miri and ThreadSanitizer builds of the same monitor",
        "assumptions": [
            "programs are well nested: every exit is in stack order (guard drop, closure return, poll return, unwinding); out-of-order exits are outside the quantifier",
            "keys are distinct within one frame; values are compared by their Display text",
            "instance identity follows the documentation of ThreadLocalCtxt (new() = fully isolated storage, shared() = the storage of every other shared(), Copy / Clone = the same value) and of Setup (every setup() builds its own default components): Default::default() is read as new(), never as shared()",
            "thread placements and poll interleavings are sampled (seeded poll order on one executor thread, OS / Miri scheduler across threads), not enumerated",
        ],
        "lanes": [
            native("c03"),
            miri("c03", seeds_q=4, seeds_t=40, scale=1, args={"min-ops": 12, "max-ops": 30, "check-every": 4, "programs": {"quick": 2, "thorough": 5}},
                 timeout={"quick": 600, "thorough": 3000}),
            san("tsan", "c03", scale=15),
        ],
    }
