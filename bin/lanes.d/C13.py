from lanes import *  # noqa

PROP = {
        "level": "exploration",
        "level_text": "Seeded exploration with decode-and-compare oracles: 3.6 k (quick) to 330 k (thorough) generated events of every kind (log / span / metric with scalar and sequence values; properties drawn from the model-value grammar through every capture path - typed, serde, sval, display, debug, error, owned, shared; duplicate keys; well-known keys with typed / textual / wrong-typed values; error chains) are each emitted under catch_unwind to the real emit_file default writer (real temporary directory, read back line by line), to real emit_otlp instances for logs / traces / metrics in protobuf and in JSON over HTTP/1.1 to a collector written for the harness (protobuf decoded with the prost types generated for emit_otlp's own tests, JSON with a strict parser that keeps duplicate fields and number text), and to emit_term in a child process. What each sink must show is computed from the model alone (fixed fields, first-wins per key, JSON / AnyValue images incl. 128-bit -> decimal text and stringified scalar map keys, severity, ids, status + exception event, metric name / unit / kind / points) and compared field by field; protobuf and JSON records of the same event are compared with each other. A directed section re-observes every known compound-map-key finding on every run. Held-on-what-was-observed, not a proof over all events.",
        "level_note": "Trusts vcommon::model (images computed from the model tree, self-checked against serde_json in C19), prost-generated OTLP types, the harness' JSON parser (cross-checked against serde_json on every line / body) and emit's own Timestamp formatting (decided by C15) / template rendering of plain values (decided by C16).",
        "technique": "runtime monitoring: reference-oracle monitor over seeded model events x {file, OTLP proto/JSON x 3 signals, terminal}; every emit under catch_unwind on the caller thread",
        "assumptions": [
            "which OTLP signal an event goes to is C14's business: the record is looked up in all three signals and checked against the rules of the signal it landed in (exactly one record per event and encoding is required)",
            "wrong-typed well-known values (lvl: 3, trace_id: true, hex text captured through serde/sval whose Display is quoted, ...) only have to be accepted without panic and leave well-formed output; their fallback is not constrained",
            "template holes only bind plain values (integers, booleans, alphanumeric strings captured typed / by Display) so the rendered message is computed from the model; terminal output is only required to contain that message and a sparkline of as many blocks as buckets",
            "property keys equal to the file writer's fixed field names (mdl msg tpl ts ts_start) and literal exception.* keys are out of contract and not generated; enum / newtype-struct typed map keys are not generated (sval_json dependency quirk); cross-format comparison of non-finite floats only requires present and non-finite-or-null",
            "gRPC transport and gzip are not exercised here (C12 covers transports); the span status of non-error spans may be Unset or Ok",
        ],
        "lanes": [
            native("c13", pkg="monx"),
        ],
    }
