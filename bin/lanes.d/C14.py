from lanes import *  # noqa

PROP = {
    "level": "exploration",
    "level_text": "Seeded exploration with a routing table written from the statement as oracle: the real Otlp emitter is built with each of the eight subsets of configured signals over HTTP+JSON, HTTP+protobuf and gRPC (gzip on/off) against a scripted local collector, and ~10^4 (quick) to ~3x10^5 (thorough) events drawn from kind x extent x metric-value x aggregation classes are each traced by a unique vid to the endpoint(s) that received a record for them; the discard counter is compared with the number of events no configured signal could take. The configuration space (8 subsets x 3 transports x gzip) is enumerated completely, the event classes are sampled. A second section sends more than 3.5 MiB per signal so that a batch is split into several requests, lets the collector acknowledge the first request(s) of the batch and fail a later one with every retryable failure kind of the transport, and requires that no event is in two acknowledged requests and that every request carrying an event is on the endpoint of its one signal. Two further sections: (i) a request answered with a complete 200 head that announces a body (content-length or chunked; gzip on/off; small and split batches) after which the collector closes the connection gracefully before or inside that body - the events of that request must not be exported again, asserted only when the re-send happens in every one of 4 repetitions (request timeout 10 s for this section); (ii) 4..16 threads emitting at the same moment through one emitter with a proper subset of signals, tens of thousands of undeliverable events per thread plus a bounded number of exported ones - the discard counter must match the routing table exactly and the exported events are accounted as usual. Held-on-what-was-observed, not a proof over all events.",
    "level_note": "Trusts the scripted collector in harness/monx/src/shared/collector.rs (tokio, h2, flate2) and the prost / serde_json decoders used to read the requests; the routing table in harness/monx/src/bin/c14.rs is written from the property statement.",
    "technique": "runtime monitoring: vid accounting at a scripted local OTLP collector against a reference routing table, plus the emitter's event_discarded counter",
    "assumptions": [
        "every event carries a unique `vid` (attribute and message); records are counted per log record / span / metric, not per data point",
        "metric-kinded events whose value is an empty sequence or numeric-looking text are only required to go to exactly one of {metrics, fallback}; integers beyond the i64 range (u64 / u128 / i128, scalar or inside a sequence) are numeric and belong to metrics",
        "the kind of an event is what its `evt_kind` value denotes, however it is carried (typed, owned / shared buffer, Display of a foreign type, String through serde / sval, padded or mixed-case text, ambient context frame)",
        "an empty range extent is a range (documented on Extent::range); upper-case / mixed-case kind text denotes the kind (C15 requires the kind parser to accept it)",
        "split-batch section: an unacknowledged attempt and its acknowledged retry may carry the same events (at-least-once); only events in two ACKNOWLEDGED requests count as exported twice, and only when the emitter has seen every acknowledgement the collector wrote; back-off and request timeout are shortened through the cfg(emit_rs_emit_verif) hooks for that section only",
        "a 2xx status line is an acknowledgement whatever happens to the response body afterwards (hang: re-send left open; graceful close: must not be re-sent, judged only if it happens in all 4 repetitions, otherwise observed-but-unjudged)",
        "concurrent section: exported events stay below the channel capacity (10 000 per signal) so that no overflow truncation interferes; the emitter's other internal counters with an exact fault-free value are recorded as evidence, not judged",
        "a scenario whose flush times out or whose requests cannot be decoded is inconclusive (encoding fidelity is C13)",
    ],
    "lanes": [
        native("c14", pkg="monx"),
    ],
}
