from lanes import *  # noqa

PROP = {
        "level": "exploration",
        "level_text": "Seeded exploration with bounded-progress oracles on logical steps: Receiver::exec is polled by hand under a virtual clock while a scripted processor answers every call with a seeded outcome (Ok, permanent failure, retryable failure with any remainder, synchronous panic, panic inside the returned future, futures that stay Pending) and the sender side sends, registers (panicking) flush/empty callbacks and drops the sender at seeded points; the oracle checks attempts per batch, non-decreasing capped back-off that restarts per batch, a retry budget that does not depend on earlier batches, exactly-once callbacks within two new batches, delivery of everything queued and termination within (outstanding batches x 11 + 2) iterations after the drop, and that no panic escapes. The blocking entry points are called from every calling context x channel state, and spawned worker threads are joined after the sender drop. Liveness is decided only as bounded progress; held-on-what-was-observed, not a proof over all outcome sequences or schedules. A `sampler` section samples the channel's metrics with samplers that park, panic or re-enter the channel while a real receiver thread runs: items sent meanwhile must be processed before the parked sampler is released (3-of-3 repetitions), and after a sampler panic sends, flushes and receiver termination must still work.",
        "level_note": "Trusts the hand-written executor (one yield per wait), the event-log parser in harness/mon/src/bin/c08.rs (batches are told apart by item identity) and std's catch_unwind. The only wall-clock verdict is the deadlock rule of the calling-context matrix (a blocking call with timeout T that is not back after 100*T + 10 s); every other time limit is a watchdog that yields `inconclusive`. The emitters' worker threads (emit_file / emit_otlp) are exercised by the end-to-end lanes of other monitors, not here.",
        "technique": "runtime monitoring: virtual-time polling of the real Receiver::exec with scripted processor outcomes and an event-log oracle (including sends and the drop of the last sender made from inside the receiver's window through callbacks and the H-B hook points); calling-context matrix under tokio runtimes incl. extreme timeouts; woken-and-lost-the-slot blocking sends timed against their original deadline (3 of 3 repetitions); bounded joins of spawned workers; every section runs on a bounded helper thread so the monitor always ends with a result; Miri on the virtual-time section",
        "assumptions": [
            "alarm thresholds: 32 attempts per batch (observed 11), 60 s retry wait (observed cap 10 s), 2 s idle wait (observed cap 500 ms); a slower-but-finite regression inside the thresholds is missed",
            "after the sender is dropped the bound is (outstanding batches x 11 + 2) attempts + idle waits, i.e. it encodes the observed budget of 10 retries",
            "a pure loss of remaining-time accounting in Trigger::wait_timeout is only observable on spurious condvar wake-ups, which neither Linux nor Miri produce on demand",
            "closed channels (receiver dropped) are exercised for 'returns, no panic' only",
        ],
        "lanes": [
            native("c08"),
            miri("c08", seeds_q=0, seeds_t=32, args={"miri-cases": 32, "miri-join": 6}),
            native("c07o", pkg="monx", name="otlp-e2e", args={"prop": "C08"}, timeout={"quick": 900, "thorough": 3600}),
        ],
    }
