from lanes import *  # noqa

PROP = {
        "level": "exploration",
        "level_text": "Seeded exploration with a reference interpreter as oracle: every case (leaf tables, ambient context, filter tree, optional call-site filter tree, destination tree up to depth 5 over And/Or/Option/Box/Arc/&/dyn/wrap(from_filter)/wrap(from_fn)/Runtime-as-emitter) is run on several events through seventeen emission paths (Runtime::emit, emit_core::emit, Emitter for Runtime, emit! call sites with and without `when:`, __private_emit, an AmbientSlot runtime, direct Emitter::emit, plus a statically typed filter over the same leaves as the runtime filter of a typed Runtime and as a call-site `when:`, plus six hand-written emit! / level-macro / evt! call sites whose properties are renamed with #[emit::key] so that key order differs from identifier order, with #[emit::optional] and cfg'd properties, through erased, AmbientSlot and typed runtimes with and without `when:`) and the delivery multiset and event snapshot at every recording leaf, what every filter leaf was shown, the answer of every filter tree and the flush fan-out are compared with the model; 44 statically typed generic compositions are compared with the model and with erased views of the same value. Held-on-what-was-observed over 10^5 (quick) to 10^7 (thorough) evaluations, not a proof over all trees; Miri and ASan watch the erased dispatch and the AmbientSlot pointer cast while a scaled-down workload runs.",
        "level_note": "Trusts the interpreter in harness/mon/src/shared/c01_trees.rs (written from the statement: own props then ambient, own extent else the clock, And/Or/Option/wrapper semantics) and the recording leaves in c01_model.rs. With ThreadLocalCtxt the order among ambient props is the context's own (hash map) and is read back before the case is judged.",
        "technique": "runtime monitoring: reference-interpreter oracle over seeded combinator trees and events, recording leaves at every destination and filter leaf; Miri / ASan builds of the same monitor",
        "assumptions": [
            "the reference interpreter encodes the logical definition of each combinator as stated in the property (And = both, Or = either, None = accept / discard, wrappers transparent)",
            "short circuit is part of the logical definition of and_when / or_when: every filter leaf must be evaluated exactly as often as Rust's && / || over the same tree evaluate it, and be shown the fully built event",
            "filter leaves read properties by enumeration, get, typed pull::<T> (Level, i64, u64, bool, Str, String, f64) and through the stock min_filter / MinLevelPathMap; for typed reads the first value for a key wins and a first value that fails the cast yields nothing (integer <-> float casts are not generated)",
            "event extents of every shape are generated (absent, point, forward / empty / backwards range, Timestamp::MIN / MAX ends); the filter and every destination must see exactly the event's own extent (range vs point, both bounds), else the clock's reading as a point",
            "values are compared by their Display text; value typing is C19's business, ambient stacking is C03's",
        ],
        "lanes": [
            native("c01"),
            miri("c01", seeds_q=0, seeds_t=16, scale=1, args={"cases": 2, "shapes": 3}),
            san("asan", "c01", scale=1),
        ],
    }
