from lanes import *  # noqa

PROP = {
        "level": "exploration",
        "level_text": "Seeded exploration with a linear-scan reference as oracle: 3*10^5 (quick) to 9*10^7 (thorough) (registrations, event) pairs - 0-12 registered paths over prefix-sharing segment names (a/aa/a_1, app/app2/app_util, v1/v10, Unicode), repeats, with and without a default, event modules that are equal / ancestor / descendant / sibling / textual-prefix sibling / detour through an unregistered segment / nested under an unregistered root, level values typed, textual in every documented form (also padded with ASCII whitespace and carried as owned String, foreign Display, OwnedValue, serde / sval capture or buffered in a ThreadLocalCtxt frame, and as long renderings with 30..5000 bytes of ignorable trailing detail), missing, numeric and junk - each answered by the real filter built through min_level calls, min_by_path_filter, FromIterator::collect and a de-duplicated shuffled re-registration, generically and through erased / boxed views. The documented textual level forms and the named sibling / detour scenarios are enumerated completely. Held-on-what-was-observed, not a proof over all path sets.",
        "level_note": "Trusts the linear scan and the level table in harness/mon/src/bin/c17.rs (written from the statement and the documented textual forms). Events whose lvl value matches no documented form are checked for totality and for agreement between views only.",
        "technique": "runtime monitoring: linear-scan reference oracle over seeded registration lists, modules and level values; exhaustive enumeration of the documented level spellings and of named sibling scenarios",
        "assumptions": [
            "a lvl value that cannot be read as the filter's level type (empty / unknown word / malformed or numeric text / number / float / bool / null for Level filters; out-of-range number / text / bool / float / null for integer filters) leaves the event without a level: the configured unleveled default applies, else Info (0 for integer filters)",
            "text that is no documented form but that the lenient parser may still read a level out of (\"info warn\", random text starting with a level letter) is not judged; only agreement between views is checked",
            "metamorphic: a documented level text padded with ASCII whitespace, or carried to the filter in another way (owned String, foreign Display, to_owned / to_shared, serde / sval capture, ThreadLocalCtxt frame), is read exactly like the plain text / typed level; Debug-captured text (quoted) is not generated",
            "equal registered paths: the last registration wins (the shuffled re-registration is de-duplicated first)",
        ],
        "lanes": [
            native("c17", scale={"quick": 100, "thorough": 400}),
        ],
    }
