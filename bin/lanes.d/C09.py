from lanes import *  # noqa

PROP = {
        "level": "exploration",
        "level_text": "Seeded exploration against a reference queue model written from the statement: for every capacity (1,2,3,8,64 quick; 1..64 thorough) seeded op sequences of send / try_send / blocking_send (sync, tokio blocking, tokio async) / receiver polls / stalls run against a hand-polled receiver, and after every sender op the bound pending <= capacity is read through Sender::verif_snapshot() and the queue_length metric together with the model's exact expectations (overflow keeps exactly the new item and counts one event, fallible variants hand back the same item and change nothing, handed-back items never reach the processor, accepted = delivered + discarded-by-counted-overflow). A scripted stalled-receiver phase (processor parked on a gate) runs per capacity against sync::spawn and tokio::spawn workers; a refill scenario wakes a blocked sender on a queue that is full again (it must not give up before its timeout); a concurrent section with 2-8 sender threads, a sampler thread and a stalled/released worker asserts the bound after every op and checks lost == counted overflows x capacity. Held-on-what-was-observed over sampled schedules, not a proof over all interleavings.",
        "level_note": "Trusts Sender::verif_snapshot (reads pending_len under the channel's own lock), the metric reader, the model in harness/mon/src/bin/c09.rs and the hand-written executor. 'Not before T' is the only wall-clock comparison (returning early would be the bug); 'send returns while the processor never does' is observed as completion of the sends - a send that blocked would surface as a lane watchdog (inconclusive), not as a violation. The emitters' own channels (emit_file / emit_otlp len/clear implementations, heap plateau) are covered by the end-to-end lanes of other monitors.",
        "technique": "runtime monitoring: reference queue model checked after every operation through the state snapshot hook and the queue_length / queue_full_truncated metrics; scripted stalled receiver; multi-threaded bound sampling; caller-supplied watchers and metric samplers that park or call back into the channel (causal verdicts: did other callers return before the gate was opened; lock probe from another thread); extreme timeouts; woken-and-lost-the-slot senders; the OTLP emitter's own channel against a stalled collector with metrics read after every emit; every section runs on a bounded helper thread; Miri on the deterministic sections",
        "assumptions": [
            "the batcher-level sections use the channel type Vec<u64>; the emitters' own Channel implementations are exercised by the files-e2e and otlp-e2e lanes (OTLP: per-signal queue against a stalled collector, metrics read after every emit)",
            "closed channels (receiver dropped) are unconstrained: try_send / blocking_send then return Err without the item by design of the API",
            "try_send / blocking_send returning Err(item) although there is room would be accepted by the model as long as nothing changes (the statement only forbids silent loss)",
        ],
        "lanes": [
            native("c09"),
            miri("c09", seeds_q=0, seeds_t=24, args={"miri-cases": 3, "miri-conc": 2, "miri-conc-ops": 6}),
            native("c09x", pkg="monx", name="files-e2e"),
            native("c09o", pkg="monx", name="otlp-e2e"),
        ],
    }
