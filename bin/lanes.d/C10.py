from lanes import *  # noqa

PROP = {
        "level": "fault_enumeration",
        "level_text": "Fault enumeration over the real emit_file worker (Worker::on_batch through the cfg(emit_rs_emit_verif) hook) running on a fault-injecting in-memory filesystem: for every generated batch history (400 quick / 32 000 thorough; 1-12 batches of 1-8 self-describing records, clock advances, clean restarts with and without reuse_files, two separators) a fault-free run counts the filesystem operations and then EVERY operation index is replayed under EVERY fault kind (error; on writes three short-write-then-error splits and a benign short write; crash x {lose all unsynced, keep all, seeded prefix} x {restart with reuse, without}), plus seeded sequences of 2-3 faults. The durability / record-integrity oracle runs after every on_batch attempt, restart and crash. An end-to-end lane drives the whole pipeline (emit -> channel -> worker) over the same filesystem, and a strace lane checks the real StdFilesystem syscall pattern. Held-on-what-was-observed: histories are sampled, the fault positions inside each history are exhausted.",
        "level_note": "Trusts the filesystem model in harness/monx/src/shared/fakefs.rs (append-only files with synced / unsynced bytes, directory entries durable only after sync_parent, crash keeps synced bytes plus a prefix of the unsynced bytes) and the harness's batcher role (re-submit exactly the returned remainder, at most 6 times). Real power loss on real media is out of reach; the strace lane only checks the syscall pattern (O_APPEND|O_CREAT|O_EXCL, fsync(file) before flush returns, fsync(dir) after create).",
        "technique": "runtime monitoring: record/durability oracle over a fault-injecting filesystem, every op index x fault kind per history, seeded multi-fault sequences, end-to-end pipeline lane, strace lane on the real filesystem; valgrind memcheck run of the fault-enumeration monitor (thorough)",
        "assumptions": [
            "crash model: per file the synced bytes plus none / all / a seeded prefix of the unsynced appended bytes survive; a file whose directory entry was never synced may vanish; an unsynced deletion may be undone",
            "records are self-describing (`id:len:payload` + separator) and never contain the separator byte; separators are single bytes (multi-byte separators interrupted mid-separator are not generated)",
            "records of a batch that was given up (flush/sync failure => no retry, or retries exhausted) or was in flight at a crash are not required to be anywhere",
            "records in a file that retention deleted through the filesystem API count as durable until that deletion, but only if the deletion happened in a LATER batch than the one that acknowledged them: when batch k returns Ok its records must sit in synced bytes of a file that still exists (the fake filesystem keeps an unlinked file writable through its open handle, as POSIX does)",
            "end-to-end lane: a third of the scenarios use the default JSON writer, the rest the harness's own writer; in three quarters of the scenarios every 2nd/3rd/7th event of every emitting thread fails to format part-way (bytes already in the FileBuf, or a Display/Debug value that writes text and then returns fmt::Error) and is followed by ordinary events of the same thread; every line must be byte for byte the record of one successfully formatted event and event_format_failed must equal the number of scripted failures",
        ],
        "lanes": [
            native("c10", pkg="monx", scale={"quick": 100, "thorough": 400}),
            native("c07x", pkg="monx", name="files-e2e", args={"prop": "C10"}),
            memcheck("c10", scale=1, timeout={"thorough": 3600}),
            {"name": "strace", "kind": "script", "script": "c10-strace", "tiers": QT, "args": {"prop": "C10"}},
        ],
    }
