from lanes import *  # noqa
PROP = {"level": "exploration", "disabled": True, "na_reason": "driver self-test, not a property", "level_text": "", "level_note": "", "technique": "",
  "lanes": [native("zz_probe"), miri("zz_probe", seeds_q=3, seeds_t=3, scale=100, timeout={"quick": 300, "thorough": 300}),
            san("tsan", "zz_probe", tiers=QT, timeout={"quick": 600, "thorough": 600}), san("asan", "zz_probe", tiers=QT, timeout={"quick": 600, "thorough": 600}),
            miri("zz_probe", name="miri-ub", seeds_q=1, seeds_t=1, args={"ub": 1}, timeout={"quick": 300, "thorough": 300}),
            san("tsan", "zz_probe", name="tsan-race", tiers=QT, args={"race": 1}), san("asan", "zz_probe", name="asan-ub", tiers=QT, args={"ub": 1}),
            memcheck("zz_probe", pkg="mon", tiers=QT, scale=100), memcheck("zz_probe", pkg="mon", name="memcheck-ub", tiers=QT, scale=100, args={"ub": 1}),
            native("zz_probe", name="native-segv", args={"segv": 1}), memcheck("zz_probe", pkg="mon", name="memcheck-uninit", tiers=QT, scale=100, args={"uninit": 1})]}
