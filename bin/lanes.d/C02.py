from lanes import *  # noqa

PROP = {
    "level": "exploration",
    "level_text": "TODO",
    "level_note": "TODO",
    "technique": "runtime monitoring: first-wins reference model over seeded collection trees, static generic shapes and fixed macro call sites",
    "assumptions": [],
    "lanes": [
        native("c02"),
    ],
}
