from lanes import *  # noqa

PROP = {
    "level": "exploration",
    "level_text": "Seeded exploration with a first-wins reference model as oracle: every generated collection is enumerated once with for_each and get / pull / is_unique / dedup() / early Break are compared against that single enumeration, on the value, behind &, through dyn ErasedProps, through dedup() (and its erased view) and as_map(). Workloads: ~150 k (quick) to 6 M (thorough) random nestings of every collection the public API offers (pairs, arrays, slices, Vec via slice, BTreeMap, HashMap, Option, And, Box, Arc, &, dyn ErasedProps, Dedup, AsMap, Span, Metric, Extent, SpanCtxt, ThreadLocalCtxt snapshots, TraceparentCtxtProps, Event::props() as an emitter sees it after emit() appended the ambient context, macro-built __PrivateMacroProps with keys in any order, and outer arrays / slices / Vecs of length 0-2 whose elements are themselves collections that repeat keys), ~105 fully generic static shapes over 1 k / 30 k seeded entry sets (including length-0/1/2 containers of non-unique elements), and 53 fixed props!/evt!/emit! call sites mixing plain, renamed, optional and cfg'd keys whose message must interpolate every hole. One case in three (and 27 static shapes) draws every key as a sub-slice of ONE shared buffer - ancestors of a dotted path that start at the same address with different lengths, suffixes, infixes, repeated segments (equal text at different addresses) - borrowed through every borrowing constructor (&str keys in pairs / arrays / maps, Str::new_ref, span and metric names), and looks keys up with slices of that same buffer and with the very Str the visitor was handed; the model compares keys by content only. Held-on-what-was-observed over the shapes and key sets that were generated, not a proof over all nestings; the generated-programs lane for macro call sites is added separately.",
    "level_note": "Trusts the small reference model in harness/mon/src/bin/c02.rs (first-wins map derived from one enumeration; value identity = Display + Debug text and i64/f64/bool/String casts) and std's catch_unwind. Miri and ASan lanes watch the unsafe casts in Dedup::new / AsMap::new, Str, the lifetime-erased ambient snapshot (ErasedCurrent) and TraceparentCtxtProps's raw pointer while the same workloads run at small scale.",
    "technique": "runtime monitoring: first-wins reference model over seeded collection trees (every edge through dyn ErasedProps), fully generic static shapes and fixed macro call sites; Miri and AddressSanitizer builds of the same monitor",
    "assumptions": [
        "the order in which dedup() yields keys is not constrained by the statement (the implementation yields sorted keys, not first-occurrence order) and is not checked",
        "views of one collection (value, &, erased, dedup, as_map) are each checked for coherence with their own enumeration; that two views enumerate the same entries is not part of the statement and not a verdict",
        "a for_each that returns Break although the visitor never asked for it is not settled by the statement and not checked",
        "collections handed to the oracle have keys with distinct final names wherever they claim uniqueness by construction (macro-built collections, ambient frames), as the property quantifies",
        "macro call sites are a fixed hand-written set here; the generated-programs lane covers the 'all call sites' part of the quantifier",
    ],
    "lanes": [
        native("c02"),
        miri("c02", seeds_q=0, seeds_t=16, scale=100),
        san("asan", "c02", scale=5),
            gen("C02"),
        ],
}
