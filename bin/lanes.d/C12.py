from lanes import *  # noqa

PROP = {
    "level": "fault_enumeration",
    "level_text": "Fault enumeration over collector scripts: the real Otlp emitter runs against a scripted local collector whose per-request behaviour (acknowledge with 200/202/204 or grpc-status 0, non-2xx, non-zero grpc-status in a trailers frame or in a trailers-only response, a bare non-2xx :status on gRPC, stall beyond the request timeout before answering or at a later phase of the response (HTTP/1: inside the head, after a head that announces a body, inside the body; gRPC: after the response HEADERS, inside the message prefix, after the message before the trailers), reset on accept, reset before the body, close after the body, refuse connections, whole-scenario outage of one signal) is drawn per scenario, crossed with a complete walk over transport (HTTP+JSON, HTTP+protobuf, gRPC) x gzip on/off x the seven non-empty signal subsets, and bursts sized so that one batch spans 1..n size-limited requests. A second family of scenarios makes one batch fail on every attempt until the emitter gives it up (the budget is read off the collector: 11 attempts observed) and then lets the next batch - on the same signal, on another signal afterwards, or on another signal meanwhile - fail exactly once on its first attempt with every failure kind. Each scenario is judged by vid accounting against the collector's recorded decisions and stamps. Every fault kind of each transport is walked systematically (first or second request after the primer) and additionally drawn at random; the fault space as a whole is sampled (2x10^2 scenarios quick, 8x10^3 thorough; the evidence counts which fault classes were actually hit by a request), not exhausted. Held-on-what-was-observed.",
    "level_note": "Trusts the scripted collector (harness/monx/src/shared/collector.rs: hand-written HTTP/1.1 over tokio, h2 server, flate2, prost / serde_json decoders). Back-off and request timeout are shortened through the cfg(emit_rs_emit_verif) hooks (delay divisor 50..200, request timeout 250..300 ms); the logical back-off state is untouched.",
    "technique": "runtime monitoring with fault injection: vid accounting at a scripted local OTLP collector (per-request fault scripts), judged after blocking_flush on logical stamps; AddressSanitizer build of the same monitor (thorough tier)",
    "assumptions": [
        "scripts inject fewer failures per batch than the emitter's retry budget (10); an endpoint that saw more than 9 unacknowledged requests is not judged for delivery (giving up is C08)",
        "exactly-once is required when nothing failed in the scenario (scripted faults, the emitter's own failure counters and the collector's view all agree); under failures an unacknowledged attempt and its acknowledged retry may carry the same events (at-least-once), but no event of an ACKNOWLEDGED request may appear in a later request - judged when the emitter's count of successful requests equals the number of acknowledgements the collector wrote (an acknowledgement lost to a client-side timeout under load is legitimately retried)",
        "an outage is judged on logical progress: 5 attempts in a row on the dead endpoint during which the healthy endpoints saw no activity, had nothing in flight and still had undelivered events",
        "a request that hangs is judged never-retried on logical progress: a reference emitter in the same process (same hooked timeout, collector that never answers) has begun 5 further attempts since the hang began while the request under test was neither given up nor attempted again",
        "HTTP/1 only: a response whose complete head carried a 2xx status and whose body then hangs counts as an acknowledgement (the emitter has seen the 2xx); whether it is also sent again is left open",
        "scenarios whose flush returns false (40 s) or whose primer requests do not arrive (15 s) are inconclusive, never violations",
        "TLS transports are not exercised",
    ],
    "lanes": [
        native("c12", pkg="monx", timeout={"quick": 900, "thorough": 3600}),
        # AddressSanitizer build of the same monitor (thorough only): the HTTP client has unsafe pin projections
        # and an uninitialised read buffer (client/http.rs) on every response path the collector scripts drive
        san("asan", "c12", pkg="monx", scale=8, timeout={"thorough": 3600}),
    ],
}
