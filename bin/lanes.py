"""
Lane table: which monitors decide which property, in which tier, under which instrument.

lane = {name, kind: native|miri|tsan|asan|memcheck|script, pkg, bin, tiers, scale, args, timeout, miri_seeds, features}
The first lane of a property is its primary lane (its result is required).
"""

Q, T, QT = ("quick",), ("thorough",), ("quick", "thorough")


def native(bin, pkg="mon", name="native", tiers=QT, **kw):
    d = {"name": name, "kind": "native", "pkg": pkg, "bin": bin, "tiers": tiers}
    d.update(kw)
    return d


def miri(bin, seeds_q=0, seeds_t=8, name="miri", scale=100, **kw):
    tiers = QT if seeds_q else T
    d = {"name": name, "kind": "miri", "pkg": "mon", "bin": bin, "tiers": tiers,
         "miri_seeds": {"quick": seeds_q, "thorough": seeds_t}, "scale": scale, "features": []}
    d.update(kw)
    return d


def san(kind, bin, name=None, scale=20, tiers=T, **kw):
    d = {"name": name or kind, "kind": kind, "pkg": "mon", "bin": bin, "tiers": tiers, "scale": scale}
    d.update(kw)
    return d


def memcheck(bin, pkg="monx", name="memcheck", scale=1, tiers=T, **kw):
    """valgrind memcheck over the native build (uninitialised-value use, invalid accesses) - for the monitors whose
    code paths Miri cannot interpret (tokio / hyper / sockets / real files)."""
    d = {"name": name, "kind": "memcheck", "pkg": pkg, "bin": bin, "tiers": tiers, "scale": scale}
    d.update(kw)
    return d


def script(name, script, tiers=QT, **kw):
    d = {"name": name, "kind": "script", "script": script, "tiers": tiers}
    d.update(kw)
    return d


def gen(prop, tiers=QT, **kw):
    """generated-programs lane (bin/genlane -> harness/vgen)."""
    d = {"name": "generated-programs", "kind": "script", "script": "genlane", "tiers": tiers, "args": {"prop": prop},
         "timeout": {"quick": 900, "thorough": 3600}}
    d.update(kw)
    return d


MANIFEST_TEXT = (
    "Every check is `bin/check <ID> <tier>`: it rebuilds the monitors against /repo's working tree with the hooks on, "
    "runs the lanes listed in bin/lanes.py, merges what they measured into evidence/<ID>.json and filters violations "
    "against KNOWN_FINDINGS.txt by exact signature. Verdicts are three-valued (violated / held on what was observed / "
    "inconclusive); nothing is called verified. bin/selftest applies mutants/*.patch and seeded/*/patch.diff to scratch "
    "copies and expects VIOLATION."
)

PROPS = {}


def _load():
    import glob, importlib.util, os
    here = os.path.dirname(os.path.abspath(__file__))
    for path in sorted(glob.glob(os.path.join(here, "lanes.d", "C*.py"))):
        pid = os.path.splitext(os.path.basename(path))[0]
        try:
            spec = importlib.util.spec_from_file_location("lanes_d_" + pid, path)
            mod = importlib.util.module_from_spec(spec)
            spec.loader.exec_module(mod)
            PROPS[pid] = mod.PROP
        except Exception as e:  # one broken lane file must not take the other properties down
            import sys
            sys.stderr.write("[lanes] %s does not load: %r\n" % (path, e))


if not globals().get("_LOADING"):
    _LOADING = True
    import sys as _sys
    _sys.modules.setdefault("lanes", _sys.modules[__name__])
    _load()
