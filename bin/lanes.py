"""
Lane table: which monitors decide which property, in which tier, under which instrument.

lane = {name, kind: native|miri|tsan|asan|script, pkg, bin, tiers, scale, args, timeout, miri_seeds, features}
The first lane of a property is its primary lane (its result is required).
"""

Q, T, QT = ("quick",), ("thorough",), ("quick", "thorough")


def native(bin, pkg="mon", name="native", tiers=QT, **kw):
    d = {"name": name, "kind": "native", "pkg": pkg, "bin": bin, "tiers": tiers}
    d.update(kw)
    return d


def miri(bin, seeds_q=0, seeds_t=8, name="miri", scale=100, **kw):
    tiers = QT if seeds_q else T
    d = {"name": name, "kind": "miri", "pkg": "mon", "bin": bin, "tiers": tiers,
         "miri_seeds": {"quick": seeds_q, "thorough": seeds_t}, "scale": scale, "features": []}
    d.update(kw)
    return d


def san(kind, bin, name=None, scale=20, tiers=T, **kw):
    d = {"name": name or kind, "kind": kind, "pkg": "mon", "bin": bin, "tiers": tiers, "scale": scale}
    d.update(kw)
    return d


MANIFEST_TEXT = (
    "Every check is `bin/check <ID> <tier>`: it rebuilds the monitors against /repo's working tree with the hooks on, "
    "runs the lanes listed in bin/lanes.py, merges what they measured into evidence/<ID>.json and filters violations "
    "against KNOWN_FINDINGS.txt by exact signature. Verdicts are three-valued (violated / held on what was observed / "
    "inconclusive); nothing is called verified. bin/selftest applies mutants/*.patch and seeded/*/patch.diff to scratch "
    "copies and expects VIOLATION."
)

PROPS = {
    "C15": {
        "level": "exploration",
        "level_text": "Seeded and exhaustive-sub-space exploration with a reference classifier as oracle: every parser entry point is run under catch_unwind on 10^7 (quick) to 10^8+ (thorough) inputs - all strings up to length 3-4 over each parser's alphabet, every single-edit neighbour of thousands of well-formed texts, random strings - and every value round trip is compared with an independent calendar / hex reference; calendar parts are converted both ways for every day 1970..9999. Held-on-what-was-observed, not a proof over all strings.",
        "level_note": "Trusts the reference classifiers in harness/mon/src/bin/c15.rs (written from the documented grammars) and std's catch_unwind; the unconstrained classes listed in DESIGN.md C15/U are checked for totality only.",
        "technique": "runtime monitoring: reference-oracle monitor over exhaustive short strings, grammar near-misses and seeded random inputs, all calls under catch_unwind",
        "assumptions": [
            "reference classifiers (RFC 3339 shape, hex ids, traceparent layout, `::` paths, documented level forms) are written from the property statement, not from the parsers",
            "digits that are in the right places but out of calendar range, all-zero ids inside a traceparent, lower-case t/z and non-ASCII identifiers are unconstrained (totality only)",
        ],
        "lanes": [
            native("c15"),
            native("c15", name="release", tiers=T, profile="release", scale=25),
        ],
    },
}
