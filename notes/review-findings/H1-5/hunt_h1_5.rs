#![allow(dead_code, unused_imports)]

use std::{
    io::{Read, Write},
    net::{TcpListener, TcpStream},
    sync::{Arc, Mutex},
    thread,
    time::Duration,
};

use emit::Emitter as _;
use prost::Message as _;

#[path = "../src/data/generated.rs"]
mod generated;

use generated::{
    collector::{
        logs::v1::ExportLogsServiceRequest, metrics::v1::ExportMetricsServiceRequest,
        trace::v1::ExportTraceServiceRequest,
    },
    common::v1 as common,
};

#[derive(Clone, Debug)]
struct Received {
    path: String,
    content_type: String,
    body: Vec<u8>,
}

#[derive(Clone)]
struct Collector {
    addr: String,
    received: Arc<Mutex<Vec<Received>>>,
}

fn read_request(stream: &mut TcpStream) -> Option<Received> {
    let mut buf = Vec::new();
    let mut byte = [0u8; 1];
    while !buf.ends_with(b"\r\n\r\n") {
        match stream.read(&mut byte) {
            Ok(1) => buf.push(byte[0]),
            _ => return None,
        }
    }
    let head = String::from_utf8_lossy(&buf).to_string();
    let mut lines = head.split("\r\n");
    let request_line = lines.next()?;
    let path = request_line.split(' ').nth(1)?.to_string();
    let path = match path.strip_prefix("http://") {
        Some(rest) => rest[rest.find('/').unwrap()..].to_string(),
        None => path,
    };
    let mut content_length = 0usize;
    let mut content_type = String::new();
    for line in lines {
        if let Some((k, v)) = line.split_once(':') {
            let k = k.trim().to_ascii_lowercase();
            let v = v.trim();
            if k == "content-length" {
                content_length = v.parse().unwrap();
            }
            if k == "content-type" {
                content_type = v.to_string();
            }
        }
    }
    let mut body = vec![0u8; content_length];
    stream.read_exact(&mut body).ok()?;
    Some(Received {
        path,
        content_type,
        body,
    })
}

impl Collector {
    fn start() -> Collector {
        let listener = TcpListener::bind("127.0.0.1:0").unwrap();
        let addr = format!("http://{}", listener.local_addr().unwrap());
        let received = Arc::new(Mutex::new(Vec::new()));

        {
            let received = received.clone();
            thread::spawn(move || {
                for stream in listener.incoming() {
                    let Ok(mut stream) = stream else { break };
                    let received = received.clone();
                    thread::spawn(move || {
                        while let Some(req) = read_request(&mut stream) {
                            received.lock().unwrap().push(req);
                            if stream
                                .write_all(b"HTTP/1.1 200 OK\r\ncontent-length: 0\r\n\r\n")
                                .is_err()
                            {
                                break;
                            }
                        }
                    });
                }
            });
        }

        Collector { addr, received }
    }

    fn take(&self) -> Vec<Received> {
        std::mem::take(&mut *self.received.lock().unwrap())
    }
}

fn otlp(c: &Collector, json: bool) -> emit_otlp::Otlp {
    let t = |p: &str| emit_otlp::http(format!("{}{}", c.addr, p)).allow_compression(false);
    if json {
        emit_otlp::new()
            .logs(emit_otlp::logs_json(t("/v1/logs")))
            .traces(emit_otlp::traces_json(t("/v1/traces")))
            .metrics(emit_otlp::metrics_json(t("/v1/metrics")))
            .spawn()
    } else {
        emit_otlp::new()
            .logs(emit_otlp::logs_proto(t("/v1/logs")))
            .traces(emit_otlp::traces_proto(t("/v1/traces")))
            .metrics(emit_otlp::metrics_proto(t("/v1/metrics")))
            .spawn()
    }
}

fn ts(s: u64) -> emit::Timestamp {
    emit::Timestamp::from_unix(Duration::from_secs(s)).unwrap()
}

fn show(reqs: &[Received]) {
    for r in reqs {
        println!("--- {} {}", r.path, r.content_type);
        if r.content_type == "application/json" {
            println!("{}", String::from_utf8_lossy(&r.body));
        } else if r.path == "/v1/logs" {
            println!("{:?}", ExportLogsServiceRequest::decode(&*r.body));
        } else if r.path == "/v1/traces" {
            println!("{:?}", ExportTraceServiceRequest::decode(&*r.body));
        } else {
            println!("{:?}", ExportMetricsServiceRequest::decode(&*r.body));
        }
    }
}

fn emit_props(otlp: &emit_otlp::Otlp, extent: impl emit::extent::ToExtent, props: impl emit::Props) {
    otlp.emit(emit::Event::new(
        emit::path!("hunt"),
        emit::Template::literal("hello"),
        extent,
        props,
    ));
}


/*
C13: "every other property appears exactly once under its key with its first value and with its
structure preserved as far as the target format can express it ... OTLP payloads whose protobuf
form decodes with the official schema and whose JSON form denotes the same records."

A null element inside a sequence (`[Some(1), None, Some(3)]`) is streamed as a bare null instead
of an (empty) AnyValue. The protobuf encoding drops it, so the array silently shrinks and the
following elements change position; the JSON encoding writes `null` as an element of a repeated
field, which proto3 JSON doesn't allow, and which disagrees with the protobuf form.
OTLP can express the element: an AnyValue with no value set.
*/
#[test]
fn null_elements_keep_their_place_in_sequences() {
    let seq: Vec<Option<i32>> = vec![Some(1), None, Some(3)];

    let proto_len = {
        let c = Collector::start();
        let otlp = otlp(&c, false);

        emit_props(&otlp, ts(1), [("seq", emit::Value::from_sval(&seq))]);
        assert!(otlp.blocking_flush(Duration::from_secs(5)));

        let reqs = c.take();
        let de = ExportLogsServiceRequest::decode(&*reqs[0].body).unwrap();
        let attr = &de.resource_logs[0].scope_logs[0].log_records[0].attributes[0];

        match attr.value.as_ref().and_then(|v| v.value.clone()) {
            Some(common::any_value::Value::ArrayValue(arr)) => {
                println!("protobuf: {:?}", arr.values);
                arr.values.len()
            }
            other => panic!("unexpected {other:?}"),
        }
    };

    let (json_len, json_has_null_element) = {
        let c = Collector::start();
        let otlp = otlp(&c, true);

        emit_props(&otlp, ts(1), [("seq", emit::Value::from_sval(&seq))]);
        assert!(otlp.blocking_flush(Duration::from_secs(5)));

        let reqs = c.take();
        let body: serde_json::Value = serde_json::from_slice(&reqs[0].body).unwrap();
        let values = body["resourceLogs"][0]["scopeLogs"][0]["logRecords"][0]["attributes"][0]
            ["value"]["arrayValue"]["values"]
            .as_array()
            .unwrap()
            .clone();
        println!("json: {values:?}");

        (values.len(), values.iter().any(|v| v.is_null()))
    };

    assert!(
        proto_len == 3 && json_len == 3 && !json_has_null_element,
        "expected a 3-element sequence to be exported as an arrayValue of 3 AnyValues (an empty AnyValue for the null) in both encodings (C13: structure preserved, JSON denotes the same record as protobuf); observed {proto_len} elements in protobuf (the null was dropped and the 3rd element moved to index 1), {json_len} elements in JSON, JSON contains a bare null element (invalid for a repeated field): {json_has_null_element}"
    );
}
