// C19: a value captured by default "displays as its Display text" (and numbers keep their meaning).
// `f32` is documented as a directly supported primitive (book/src/reference/events.md), but the default
// capture widens it to `f64` so the captured value no longer displays, renders, or serializes like the original.

use std::sync::Mutex;

use emit::Props as _;

static SEEN: Mutex<Vec<(String, String)>> = Mutex::new(Vec::new());

#[test]
fn f32_captured_by_default_keeps_its_display_text() {
    let rt = emit::runtime::Runtime::build(
        emit::emitter::from_fn(|evt| {
            let x = evt.props().get("x").expect("missing `x`");

            SEEN.lock()
                .unwrap()
                .push((x.to_string(), evt.msg().to_string()));
        }),
        emit::Empty,
        emit::Empty,
        emit::Empty,
        emit::Empty,
    );

    for x in [0.1f32, 16777217.3f32, f32::MAX, f32::MIN_POSITIVE, 1.0e-7f32] {
        SEEN.lock().unwrap().clear();

        emit::emit!(rt, "x is {x}", x);

        let (prop, msg) = SEEN.lock().unwrap().pop().expect("nothing emitted");

        assert_eq!(
            x.to_string(),
            prop,
            "expected the default capture of the f32 `{x}` to display as its Display text `{x}`, but the property displays as `{prop}`",
        );
        assert_eq!(
            format!("x is {x}"),
            msg,
            "expected the rendered message to contain the Display text of the f32 `{x}`, but got `{msg}`",
        );
    }
}
