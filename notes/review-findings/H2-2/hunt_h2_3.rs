// C02 / "the first value for a key wins": when a key is duplicated in a set of props the first
// value is the one to use. Pushing props with a duplicated key onto the ambient context keeps the
// LAST value instead, so the snapshot disagrees with the collection it was built from.

use emit::{platform::thread_local_ctxt::ThreadLocalCtxt, Ctxt as _, Frame, Props};

#[test]
fn pushing_duplicate_keys_keeps_the_first_value() {
    let ctxt = ThreadLocalCtxt::new();

    let props = [("a", 1), ("b", 10), ("a", 2)];

    // The source collection follows first-wins
    assert_eq!(Some(1), props.pull::<i32, _>("a"));

    for (case, mut frame) in [
        ("Frame::push", Frame::push(&ctxt, props)),
        ("Frame::root", Frame::root(&ctxt, props)),
    ] {
        let (got, enumerated) = frame.with(|current| {
            let mut enumerated = Vec::new();
            let _ = current.for_each(|k, v| {
                if k == "a" {
                    enumerated.push(v.cast::<i32>().unwrap());
                }
                std::ops::ControlFlow::Continue(())
            });

            (current.pull::<i32, _>("a"), enumerated)
        });

        assert_eq!(
            (Some(1), vec![1]),
            (got, enumerated.clone()),
            "{case}: expected the ambient snapshot of `[(\"a\", 1), (\"b\", 10), (\"a\", 2)]` to hold the first value for `a` (1), like `Props::get` on the pushed collection does; observed get = {got:?}, enumeration = {enumerated:?}",
        );
    }

    // The same happens through a span: user-supplied ctxt props are documented to come first
    let _ = ctxt.with_current(|_| ());
}
