#![allow(dead_code, unused_imports)]

use std::{
    io::{Read, Write},
    net::{TcpListener, TcpStream},
    sync::{Arc, Mutex},
    thread,
    time::Duration,
};

use emit::Emitter as _;
use prost::Message as _;

#[path = "../src/data/generated.rs"]
mod generated;

use generated::{
    collector::{
        logs::v1::ExportLogsServiceRequest, metrics::v1::ExportMetricsServiceRequest,
        trace::v1::ExportTraceServiceRequest,
    },
    common::v1 as common,
};

#[derive(Clone, Debug)]
struct Received {
    path: String,
    content_type: String,
    body: Vec<u8>,
}

#[derive(Clone)]
struct Collector {
    addr: String,
    received: Arc<Mutex<Vec<Received>>>,
}

fn read_request(stream: &mut TcpStream) -> Option<Received> {
    let mut buf = Vec::new();
    let mut byte = [0u8; 1];
    while !buf.ends_with(b"\r\n\r\n") {
        match stream.read(&mut byte) {
            Ok(1) => buf.push(byte[0]),
            _ => return None,
        }
    }
    let head = String::from_utf8_lossy(&buf).to_string();
    let mut lines = head.split("\r\n");
    let request_line = lines.next()?;
    let path = request_line.split(' ').nth(1)?.to_string();
    let path = match path.strip_prefix("http://") {
        Some(rest) => rest[rest.find('/').unwrap()..].to_string(),
        None => path,
    };
    let mut content_length = 0usize;
    let mut content_type = String::new();
    for line in lines {
        if let Some((k, v)) = line.split_once(':') {
            let k = k.trim().to_ascii_lowercase();
            let v = v.trim();
            if k == "content-length" {
                content_length = v.parse().unwrap();
            }
            if k == "content-type" {
                content_type = v.to_string();
            }
        }
    }
    let mut body = vec![0u8; content_length];
    stream.read_exact(&mut body).ok()?;
    Some(Received {
        path,
        content_type,
        body,
    })
}

impl Collector {
    fn start() -> Collector {
        let listener = TcpListener::bind("127.0.0.1:0").unwrap();
        let addr = format!("http://{}", listener.local_addr().unwrap());
        let received = Arc::new(Mutex::new(Vec::new()));

        {
            let received = received.clone();
            thread::spawn(move || {
                for stream in listener.incoming() {
                    let Ok(mut stream) = stream else { break };
                    let received = received.clone();
                    thread::spawn(move || {
                        while let Some(req) = read_request(&mut stream) {
                            received.lock().unwrap().push(req);
                            if stream
                                .write_all(b"HTTP/1.1 200 OK\r\ncontent-length: 0\r\n\r\n")
                                .is_err()
                            {
                                break;
                            }
                        }
                    });
                }
            });
        }

        Collector { addr, received }
    }

    fn take(&self) -> Vec<Received> {
        std::mem::take(&mut *self.received.lock().unwrap())
    }
}

fn otlp(c: &Collector, json: bool) -> emit_otlp::Otlp {
    let t = |p: &str| emit_otlp::http(format!("{}{}", c.addr, p)).allow_compression(false);
    if json {
        emit_otlp::new()
            .logs(emit_otlp::logs_json(t("/v1/logs")))
            .traces(emit_otlp::traces_json(t("/v1/traces")))
            .metrics(emit_otlp::metrics_json(t("/v1/metrics")))
            .spawn()
    } else {
        emit_otlp::new()
            .logs(emit_otlp::logs_proto(t("/v1/logs")))
            .traces(emit_otlp::traces_proto(t("/v1/traces")))
            .metrics(emit_otlp::metrics_proto(t("/v1/metrics")))
            .spawn()
    }
}

fn ts(s: u64) -> emit::Timestamp {
    emit::Timestamp::from_unix(Duration::from_secs(s)).unwrap()
}

fn show(reqs: &[Received]) {
    for r in reqs {
        println!("--- {} {}", r.path, r.content_type);
        if r.content_type == "application/json" {
            println!("{}", String::from_utf8_lossy(&r.body));
        } else if r.path == "/v1/logs" {
            println!("{:?}", ExportLogsServiceRequest::decode(&*r.body));
        } else if r.path == "/v1/traces" {
            println!("{:?}", ExportTraceServiceRequest::decode(&*r.body));
        } else {
            println!("{:?}", ExportMetricsServiceRequest::decode(&*r.body));
        }
    }
}

fn emit_props(otlp: &emit_otlp::Otlp, extent: impl emit::extent::ToExtent, props: impl emit::Props) {
    otlp.emit(emit::Event::new(
        emit::path!("hunt"),
        emit::Template::literal("hello"),
        extent,
        props,
    ));
}


/*
C14: "metric samples (metric kind with a numeric or numeric-sequence value) [are exported]
through the metrics signal ... no event is exported ... through a signal that contradicts its kind."

The metric value extractor only understands `i64` and `f64`. Integers that don't fit an `i64`
(a `u64` counter above `i64::MAX`, `u128`, `i128`) are streamed by sval as tagged number *text*,
which the extractor rejects as non-numeric, so a perfectly numeric metric sample is exported as
a log record instead of a metric.
*/
#[test]
fn large_unsigned_metric_values_go_through_the_metrics_signal() {
    let mut problems = Vec::new();

    for json in [false, true] {
        let c = Collector::start();
        let otlp = otlp(&c, json);

        let cases = [
            ("fits_i64", emit::Value::from(i64::MAX as u64)),
            ("u64_above_i64", emit::Value::from(i64::MAX as u64 + 1)),
            ("u64_max", emit::Value::from(u64::MAX)),
            ("u128_big", emit::Value::from(1u128 << 64)),
            ("i128_small", emit::Value::from(i64::MIN as i128 - 1)),
            ("u64_seq", emit::Value::from_sval(&[1u64, u64::MAX])),
        ];

        for (name, value) in &cases {
            emit_props(
                &otlp,
                ts(1),
                [
                    ("evt_kind", emit::Value::from("metric")),
                    ("metric_name", emit::Value::from(*name)),
                    ("metric_agg", emit::Value::from("count")),
                    ("metric_value", value.by_ref()),
                ],
            );
        }

        assert!(otlp.blocking_flush(Duration::from_secs(5)));

        let mut via_metrics = Vec::new();
        let mut via_logs = Vec::new();

        for req in c.take() {
            let body = String::from_utf8_lossy(&req.body).into_owned();

            for (name, _) in &cases {
                // metric names are plain ASCII so they show up verbatim in both encodings
                if body.contains(name) {
                    if req.path == "/v1/metrics" {
                        via_metrics.push(*name);
                    } else {
                        via_logs.push(*name);
                    }
                }
            }
        }

        for (name, _) in &cases {
            if !via_metrics.contains(name) || via_logs.contains(name) {
                problems.push(format!(
                    "{name} ({}): via metrics: {}, via logs: {}",
                    if json { "json" } else { "protobuf" },
                    via_metrics.contains(name),
                    via_logs.contains(name)
                ));
            }
        }
    }

    assert!(
        problems.is_empty(),
        "expected every metric-kinded event with a numeric (or numeric sequence) value to be exported through the metrics signal and only through it (C14); observed numeric samples exported as log records: {problems:#?}"
    );
}
