// C05: a span that ends by leaving scope yields a plain completion; only a span that ends by
// panic unwinding gets an error and the panic level added.
//
// The default completion decides "this span is unwinding" from `std::thread::panicking()` alone,
// so a span that starts and returns normally inside a destructor that runs while some *other*
// panic unwinds is reported as panicked (`err: panicked`, `lvl: error`).

use std::sync::Mutex;

use emit::{platform::thread_local_ctxt::ThreadLocalCtxt, Props as _};

type Rt = emit::runtime::Runtime<
    emit::emitter::FromFn<fn(emit::Event<&dyn emit::props::ErasedProps>)>,
    emit::Empty,
    ThreadLocalCtxt,
    emit::Empty,
    emit::platform::rand_rng::RandRng,
>;

static SEEN: Mutex<Vec<(String, Option<String>, Option<String>)>> = Mutex::new(Vec::new());

fn on_event(evt: emit::Event<&dyn emit::props::ErasedProps>) {
    SEEN.lock().unwrap().push((
        evt.props().pull::<String, _>("span_name").unwrap(),
        evt.props().get("err").map(|v| v.to_string()),
        evt.props().get("lvl").map(|v| v.to_string()),
    ));
}

static RT: Rt = emit::runtime::Runtime::build(
    emit::emitter::FromFn::new(on_event as fn(emit::Event<&dyn emit::props::ErasedProps>)),
    emit::Empty,
    ThreadLocalCtxt::shared(),
    emit::Empty,
    emit::platform::rand_rng::RandRng::new(),
);

#[emit::span(rt: RT, "cleanup")]
fn cleanup() -> i32 {
    // Runs to the end and returns normally
    42
}

struct Cleanup;

impl Drop for Cleanup {
    fn drop(&mut self) {
        assert_eq!(42, cleanup());
    }
}

#[emit::span(rt: RT, "outer")]
fn outer() {
    let _cleanup = Cleanup;

    panic!("explicit panic");
}

#[test]
fn span_returning_normally_during_unwinding_is_not_marked_as_panicked() {
    let _ = std::panic::catch_unwind(|| outer());

    let seen = std::mem::take(&mut *SEEN.lock().unwrap());

    assert_eq!(2, seen.len(), "expected each span to complete exactly once: {seen:?}");

    let outer = seen.iter().find(|s| s.0 == "outer").unwrap();
    assert_eq!(
        (Some("panicked".to_owned()), Some("error".to_owned())),
        (outer.1.clone(), outer.2.clone()),
        "the span that unwound carries the panic error and level"
    );

    let cleanup = seen.iter().find(|s| s.0 == "cleanup").unwrap();
    assert_eq!(
        (None, None),
        (cleanup.1.clone(), cleanup.2.clone()),
        "expected the `cleanup` span, which returned normally (leaving scope), to complete without an error or panic level; observed err = {:?}, lvl = {:?}",
        cleanup.1,
        cleanup.2,
    );
}
