#![allow(dead_code, unused_imports)]

use std::{
    io::{Read, Write},
    net::{TcpListener, TcpStream},
    sync::{Arc, Mutex},
    thread,
    time::Duration,
};

use emit::Emitter as _;
use prost::Message as _;

#[path = "../src/data/generated.rs"]
mod generated;

use generated::{
    collector::{
        logs::v1::ExportLogsServiceRequest, metrics::v1::ExportMetricsServiceRequest,
        trace::v1::ExportTraceServiceRequest,
    },
    common::v1 as common,
};

#[derive(Clone, Debug)]
struct Received {
    path: String,
    content_type: String,
    body: Vec<u8>,
}

#[derive(Clone)]
struct Collector {
    addr: String,
    received: Arc<Mutex<Vec<Received>>>,
}

fn read_request(stream: &mut TcpStream) -> Option<Received> {
    let mut buf = Vec::new();
    let mut byte = [0u8; 1];
    while !buf.ends_with(b"\r\n\r\n") {
        match stream.read(&mut byte) {
            Ok(1) => buf.push(byte[0]),
            _ => return None,
        }
    }
    let head = String::from_utf8_lossy(&buf).to_string();
    let mut lines = head.split("\r\n");
    let request_line = lines.next()?;
    let path = request_line.split(' ').nth(1)?.to_string();
    let path = match path.strip_prefix("http://") {
        Some(rest) => rest[rest.find('/').unwrap()..].to_string(),
        None => path,
    };
    let mut content_length = 0usize;
    let mut content_type = String::new();
    for line in lines {
        if let Some((k, v)) = line.split_once(':') {
            let k = k.trim().to_ascii_lowercase();
            let v = v.trim();
            if k == "content-length" {
                content_length = v.parse().unwrap();
            }
            if k == "content-type" {
                content_type = v.to_string();
            }
        }
    }
    let mut body = vec![0u8; content_length];
    stream.read_exact(&mut body).ok()?;
    Some(Received {
        path,
        content_type,
        body,
    })
}

impl Collector {
    fn start() -> Collector {
        let listener = TcpListener::bind("127.0.0.1:0").unwrap();
        let addr = format!("http://{}", listener.local_addr().unwrap());
        let received = Arc::new(Mutex::new(Vec::new()));

        {
            let received = received.clone();
            thread::spawn(move || {
                for stream in listener.incoming() {
                    let Ok(mut stream) = stream else { break };
                    let received = received.clone();
                    thread::spawn(move || {
                        while let Some(req) = read_request(&mut stream) {
                            received.lock().unwrap().push(req);
                            if stream
                                .write_all(b"HTTP/1.1 200 OK\r\ncontent-length: 0\r\n\r\n")
                                .is_err()
                            {
                                break;
                            }
                        }
                    });
                }
            });
        }

        Collector { addr, received }
    }

    fn take(&self) -> Vec<Received> {
        std::mem::take(&mut *self.received.lock().unwrap())
    }
}

fn otlp(c: &Collector, json: bool) -> emit_otlp::Otlp {
    let t = |p: &str| emit_otlp::http(format!("{}{}", c.addr, p)).allow_compression(false);
    if json {
        emit_otlp::new()
            .logs(emit_otlp::logs_json(t("/v1/logs")))
            .traces(emit_otlp::traces_json(t("/v1/traces")))
            .metrics(emit_otlp::metrics_json(t("/v1/metrics")))
            .spawn()
    } else {
        emit_otlp::new()
            .logs(emit_otlp::logs_proto(t("/v1/logs")))
            .traces(emit_otlp::traces_proto(t("/v1/traces")))
            .metrics(emit_otlp::metrics_proto(t("/v1/metrics")))
            .spawn()
    }
}

fn ts(s: u64) -> emit::Timestamp {
    emit::Timestamp::from_unix(Duration::from_secs(s)).unwrap()
}

fn show(reqs: &[Received]) {
    for r in reqs {
        println!("--- {} {}", r.path, r.content_type);
        if r.content_type == "application/json" {
            println!("{}", String::from_utf8_lossy(&r.body));
        } else if r.path == "/v1/logs" {
            println!("{:?}", ExportLogsServiceRequest::decode(&*r.body));
        } else if r.path == "/v1/traces" {
            println!("{:?}", ExportTraceServiceRequest::decode(&*r.body));
        } else {
            println!("{:?}", ExportMetricsServiceRequest::decode(&*r.body));
        }
    }
}

fn emit_props(otlp: &emit_otlp::Otlp, extent: impl emit::extent::ToExtent, props: impl emit::Props) {
    otlp.emit(emit::Event::new(
        emit::path!("hunt"),
        emit::Template::literal("hello"),
        extent,
        props,
    ));
}


/*
C13: "... any property values including ... non-finite numbers ... produces well-formed output:
... OTLP payloads whose protobuf form decodes with the official schema and whose JSON form
denotes the same records."

In the protobuf encoding NaN / +inf / -inf come through as doubles. In the JSON encoding they
are written as a JSON `null`, so the attribute value / metric data point value is simply absent.
The proto3 JSON mapping OTLP/JSON is defined by represents them as the strings
"NaN", "Infinity" and "-Infinity".
*/

fn find_attr<'a>(attrs: &'a serde_json::Value, key: &str) -> &'a serde_json::Value {
    attrs
        .as_array()
        .unwrap()
        .iter()
        .find(|kv| kv["key"] == key)
        .unwrap_or_else(|| panic!("missing attribute {key}"))
}

#[test]
fn non_finite_numbers_survive_the_json_encoding() {
    let cases = [
        ("nan", f64::NAN, "NaN"),
        ("inf", f64::INFINITY, "Infinity"),
        ("ninf", f64::NEG_INFINITY, "-Infinity"),
    ];

    // Reference: the protobuf encoding carries the values
    {
        let c = Collector::start();
        let otlp = otlp(&c, false);

        emit_props(
            &otlp,
            ts(1),
            cases.map(|(k, v, _)| (k, emit::Value::from(v))),
        );
        assert!(otlp.blocking_flush(Duration::from_secs(5)));

        let reqs = c.take();
        let de = ExportLogsServiceRequest::decode(&*reqs[0].body).unwrap();
        let record = &de.resource_logs[0].scope_logs[0].log_records[0];

        for (k, v, _) in cases {
            let attr = record.attributes.iter().find(|kv| kv.key == k).unwrap();
            match attr.value.as_ref().and_then(|v| v.value.as_ref()) {
                Some(common::any_value::Value::DoubleValue(de)) => {
                    assert_eq!(v.to_bits(), de.to_bits(), "protobuf value of {k}")
                }
                other => panic!("unexpected protobuf value {other:?} for {k}"),
            }
        }
    }

    // The JSON encoding has to denote the same record
    let c = Collector::start();
    let otlp = otlp(&c, true);

    // a log record with non-finite attributes
    emit_props(
        &otlp,
        ts(1),
        cases.map(|(k, v, _)| (k, emit::Value::from(v))),
    );

    // gauge metric samples with non-finite values
    for (k, v, _) in cases {
        emit_props(
            &otlp,
            ts(1),
            [
                ("evt_kind", emit::Value::from("metric")),
                ("metric_name", emit::Value::from(k)),
                ("metric_agg", emit::Value::from("last")),
                ("metric_value", emit::Value::from(v)),
            ],
        );
    }

    assert!(otlp.blocking_flush(Duration::from_secs(5)));

    let reqs = c.take();
    let mut problems = Vec::new();

    for req in &reqs {
        let body: serde_json::Value = serde_json::from_slice(&req.body).unwrap();

        if req.path == "/v1/logs" {
            let attrs = &body["resourceLogs"][0]["scopeLogs"][0]["logRecords"][0]["attributes"];

            for (k, _, expected) in cases {
                let actual = &find_attr(attrs, k)["value"]["doubleValue"];
                if actual != expected {
                    problems.push(format!(
                        "log attribute {k}: expected doubleValue {expected:?}, observed {actual}"
                    ));
                }
            }
        } else if req.path == "/v1/metrics" {
            let metrics = body["resourceMetrics"][0]["scopeMetrics"][0]["metrics"]
                .as_array()
                .unwrap();

            for (k, _, expected) in cases {
                let metric = metrics.iter().find(|m| m["name"] == k).unwrap();
                let actual = &metric["gauge"]["dataPoints"][0]["asDouble"];
                if actual != expected {
                    problems.push(format!(
                        "metric {k}: expected data point asDouble {expected:?}, observed {actual}"
                    ));
                }
            }
        }
    }

    assert_eq!(2, reqs.len(), "expected a logs and a metrics request");
    assert!(
        problems.is_empty(),
        "expected the OTLP JSON form to denote the same non-finite values the protobuf form carries (proto3 JSON: \"NaN\" / \"Infinity\" / \"-Infinity\") (C13); observed the values replaced by null, i.e. lost: {problems:#?}"
    );
}
