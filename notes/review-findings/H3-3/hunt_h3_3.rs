/*
C11: "a new file is started whenever the period changes or the batch would take the current file past
the size limit".

When a file is reused after a restart (`reuse_files(true)`) the worker first writes a defensive separator
and then the batch, but the roll decision only compares `file size + batch bytes` with the limit. A batch
that fits exactly therefore takes the reused file past `max_file_size_bytes` instead of starting a new file.
*/

use std::{
    fs,
    path::{Path, PathBuf},
    time::Duration,
};

use emit::Emitter as _;

const MAX_FILE_SIZE_BYTES: usize = 20;

// Every event is exactly 10 bytes including its separator
fn writer(
    buf: &mut emit_file::FileBuf,
    _: &emit::Event<&dyn emit::props::ErasedProps>,
) -> std::io::Result<()> {
    buf.extend_from_slice(b"123456789\n");
    Ok(())
}

fn fresh_dir(name: &str) -> PathBuf {
    let dir = Path::new(env!("CARGO_TARGET_TMPDIR")).join(name);
    let _ = fs::remove_dir_all(&dir);
    fs::create_dir_all(&dir).unwrap();
    dir
}

fn run_once(dir: &Path) {
    let files = emit_file::set_with_writer(dir.join("app.log"), writer, b"\n")
        .roll_by_day()
        .reuse_files(true)
        .max_file_size_bytes(MAX_FILE_SIZE_BYTES)
        .max_files(10)
        .spawn();

    files.emit(emit::Event::new(
        emit::path!("hunt"),
        emit::Template::literal("x"),
        emit::Empty,
        emit::Empty,
    ));

    assert!(files.blocking_flush(Duration::from_secs(30)));
}

fn sizes(dir: &Path) -> Vec<(String, u64)> {
    let mut sizes = fs::read_dir(dir)
        .unwrap()
        .map(|entry| {
            let entry = entry.unwrap();
            (
                entry.file_name().into_string().unwrap(),
                entry.metadata().unwrap().len(),
            )
        })
        .collect::<Vec<_>>();
    sizes.sort();
    sizes
}

#[test]
fn reused_file_is_not_taken_past_the_size_limit() {
    let dir = fresh_dir("hunt_h3_3");

    // First run: one 10 byte event in a new file
    run_once(&dir);
    assert_eq!(1, sizes(&dir).len());
    assert_eq!(10, sizes(&dir)[0].1);

    // Restart: the 10 byte file is reused for a 10 byte batch, 10 + 10 <= 20
    run_once(&dir);

    let sizes = sizes(&dir);

    assert!(
        sizes
            .iter()
            .all(|(_, size)| *size <= MAX_FILE_SIZE_BYTES as u64),
        "C11 expects a new file to be started whenever a batch would take the current file past the size limit of {MAX_FILE_SIZE_BYTES} bytes \
         (each batch here is 10 bytes, so no file should ever exceed the limit); observed files and sizes: {sizes:?}"
    );
}
