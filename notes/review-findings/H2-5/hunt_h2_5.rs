// C19: a value captured with `#[emit::as_sval]` keeps its full structure, so any serializer
// (including a serde one) sees what the original value would have produced.
//
// A sequence nested anywhere inside an sval-captured value reaches serde serializers with a
// length hint of `Some(0)`, so serde_json writes `[]` and then the elements: invalid JSON.

#[macro_use]
extern crate serde_derive;
#[macro_use]
extern crate sval_derive;

use std::sync::Mutex;

use emit::Props as _;

#[derive(Serialize, Value)]
struct Order {
    id: u32,
    items: Vec<u32>,
}

static SEEN: Mutex<Vec<String>> = Mutex::new(Vec::new());

#[test]
fn sval_captured_value_with_nested_seq_serializes_through_serde() {
    let rt = emit::runtime::Runtime::build(
        emit::emitter::from_fn(|evt| {
            let order = evt.props().get("order").expect("missing `order`");

            SEEN.lock()
                .unwrap()
                .push(serde_json::to_string(&order).expect("failed to serialize"));
        }),
        emit::Empty,
        emit::Empty,
        emit::Empty,
        emit::Empty,
    );

    let order = Order {
        id: 1,
        items: vec![1, 2, 3],
    };

    let expected = serde_json::to_string(&order).unwrap();

    // Baseline: captured through serde
    emit::emit!(rt, "order", #[emit::as_serde] order: &order);
    assert_eq!(expected, SEEN.lock().unwrap().pop().unwrap());

    // Captured through sval
    emit::emit!(rt, "order", #[emit::as_sval] order: &order);
    let actual = SEEN.lock().unwrap().pop().unwrap();

    assert_eq!(
        expected, actual,
        "expected a serde serializer to see the same structure for the sval-captured value as for the original (`{expected}`), but serde_json produced `{actual}`",
    );
}
