/*
C11: "while the clock does not go backwards sorting names in descending order puts the most
recently created file first ... at most the configured maximum number of files, oldest deleted first".

File names are `prefix.period.counter.id.ext` where `counter` is the number of whole milliseconds
since the start of the period and `id` is 32 random bits. When two files of a set are created
within the same millisecond their relative order is decided by the random id alone, so a newer
file can sort below an older one. Retention (and `reuse_files`) trust that order.
*/

use std::{
    collections::BTreeMap,
    fs,
    path::{Path, PathBuf},
    sync::atomic::{AtomicUsize, Ordering},
    time::{Duration, Instant},
};

use emit::Emitter as _;

static NEXT: AtomicUsize = AtomicUsize::new(0);

// Each event is its sequence number, zero padded
fn writer(
    buf: &mut emit_file::FileBuf,
    _: &emit::Event<&dyn emit::props::ErasedProps>,
) -> std::io::Result<()> {
    let n = NEXT.fetch_add(1, Ordering::SeqCst);
    buf.extend_from_slice(format!("{n:08}").as_bytes());
    Ok(())
}

fn fresh_dir(name: &str) -> PathBuf {
    let dir = Path::new(env!("CARGO_TARGET_TMPDIR")).join(name);
    let _ = fs::remove_dir_all(&dir);
    fs::create_dir_all(&dir).unwrap();
    dir
}

fn emit_one(files: &emit_file::FileSet) {
    files.emit(emit::Event::new(
        emit::path!("hunt"),
        emit::Template::literal("x"),
        emit::Empty,
        emit::Empty,
    ));
}

// file name -> sequence numbers of the events in it
fn read_set(dir: &Path) -> BTreeMap<String, Vec<usize>> {
    let mut files = BTreeMap::new();

    for entry in fs::read_dir(dir).unwrap() {
        let entry = entry.unwrap();
        let name = entry.file_name().into_string().unwrap();
        let content = fs::read_to_string(entry.path()).unwrap();

        let events = content
            .split('\n')
            .filter(|record| !record.is_empty())
            .map(|record| record.parse::<usize>().unwrap())
            .collect::<Vec<_>>();

        files.insert(name, events);
    }

    files
}

#[test]
fn newest_file_sorts_first_and_oldest_is_deleted_first() {
    // Every batch is bigger than the size limit, so every batch starts a new file.
    // Files are created strictly one after another by the single worker thread,
    // and the system clock never goes backwards during the test.
    let max_files: usize = std::env::var("MAXF").ok().map(|v| v.parse().unwrap()).unwrap_or(4);

    let deadline = Instant::now() + Duration::from_secs(60);
    let mut round = 0;

    while Instant::now() < deadline {
        round += 1;

        let dir = fresh_dir(&format!("hunt_h3_1_{round}"));

        let files = emit_file::set_with_writer(dir.join("app.log"), writer, b"\n")
            .roll_by_day()
            .max_file_size_bytes(1)
            .max_files(max_files)
            .spawn();

        // Keep the worker busy so it takes batch after batch without idling in between
        let first = NEXT.load(Ordering::SeqCst);
        for _ in 0..300 {
            emit_one(&files);

            let spin = Instant::now();
            while spin.elapsed() < Duration::from_micros(30) {}
        }
        assert!(files.blocking_flush(Duration::from_secs(30)));
        let last = NEXT.load(Ordering::SeqCst) - 1;
        drop(files);

        let set = read_set(&dir);

        assert!(
            set.len() <= max_files,
            "expected at most {max_files} files, found {}",
            set.len()
        );

        // Names in descending order: what the file set itself treats as newest-first
        let descending = set.iter().rev().collect::<Vec<_>>();

        // (name, first event ..= last event) for messages
        let summary = descending
            .iter()
            .map(|(name, events)| format!("{name} holds events {}..={}", events[0], events[events.len() - 1]))
            .collect::<Vec<_>>();

        // 1. The most recently created file holds the last event; it must sort first
        let (newest_name, newest_events) = descending[0];
        assert!(
            newest_events.contains(&last),
            "C11 expects the most recently created file to sort first in descending name order; \
             events {first}..={last} were written one file per batch, the file holding the last event ({last}) is {:?} \
             but the first name in descending order is {newest_name:?} holding events {newest_events:?}; full set (descending): {summary:#?}",
            set.iter().find(|(_, events)| events.contains(&last)).map(|(name, _)| name),
        );

        // 2. Descending name order must be descending creation order for the whole set
        let newest_event_per_file = descending
            .iter()
            .map(|(_, events)| *events.iter().max().unwrap())
            .collect::<Vec<_>>();

        assert!(
            newest_event_per_file.windows(2).all(|w| w[0] > w[1]),
            "C11 expects descending name order to be newest-first; observed files (descending by name, with the events they hold): {summary:#?}"
        );

        // 3. Retention must have deleted oldest-first, so what survives is exactly the tail of the
        // event sequence
        let mut survivors = descending
            .iter()
            .flat_map(|(_, events)| events.iter().copied())
            .collect::<Vec<_>>();
        survivors.sort_by(|a, b| b.cmp(a));

        let expected_tail = (0..survivors.len()).map(|i| last - i).collect::<Vec<_>>();
        assert_eq!(
            expected_tail, survivors,
            "C11 expects retention to delete the oldest files first, so the {} surviving files must hold the most recent events; \
             observed a newer file was deleted while an older one was kept; set (descending by name): {summary:#?}",
            set.len(),
        );
    }
}
