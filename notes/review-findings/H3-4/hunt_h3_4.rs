/*
C09: "The fallible and blocking send variants never discard anything silently: they either enqueue the
item or hand it back to the caller when the timeout expires."

Once the receiving half is gone (its thread could not be spawned, its task was cancelled, ...) `try_send`
and `blocking_send` neither enqueue the item nor hand it back: they return a `BatchError` without the
item, which has been dropped inside the call. When the channel is merely full the very same calls do
return the item, so a caller that relies on `into_retryable` to keep (or re-route) undeliverable items
loses them exactly when the destination has gone away.
*/

use std::{
    sync::{
        atomic::{AtomicUsize, Ordering},
        Arc,
    },
    time::Duration,
};

struct Item(Arc<AtomicUsize>);

impl Drop for Item {
    fn drop(&mut self) {
        self.0.fetch_add(1, Ordering::SeqCst);
    }
}

#[test]
fn fallible_sends_hand_the_item_back_when_they_cannot_enqueue_it() {
    let dropped = Arc::new(AtomicUsize::new(0));

    let (sender, receiver) = emit_batcher::bounded::<Vec<Item>>(1);

    // The receiver never runs, and the queue is full: the item comes back
    sender.try_send(Item(dropped.clone())).map_err(|_| ()).unwrap();
    let err = sender.try_send(Item(dropped.clone())).err().unwrap();
    assert!(err.into_retryable().is_some());
    dropped.store(0, Ordering::SeqCst);

    // The receiver goes away
    drop(receiver);

    let try_send_returned = sender
        .try_send(Item(dropped.clone()))
        .err()
        .map(|err| err.into_retryable().is_some());
    let dropped_by_try_send = dropped.swap(0, Ordering::SeqCst);

    let blocking_send_returned =
        emit_batcher::sync::blocking_send(&sender, Item(dropped.clone()), Duration::from_millis(50))
            .err()
            .map(|err| err.into_retryable().is_some());
    let dropped_by_blocking_send = dropped.swap(0, Ordering::SeqCst);

    assert!(
        try_send_returned == Some(true) && blocking_send_returned == Some(true),
        "C09 expects try_send/blocking_send to either enqueue the item or hand it back; observed with the receiver gone: \
         try_send returned Err carrying the item: {try_send_returned:?} (items dropped inside the call: {dropped_by_try_send}), \
         blocking_send returned Err carrying the item: {blocking_send_returned:?} (items dropped inside the call: {dropped_by_blocking_send})"
    );
}
