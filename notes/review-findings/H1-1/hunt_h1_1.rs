#![allow(dead_code, unused_imports)]

use std::{
    io::{Read, Write},
    net::{TcpListener, TcpStream},
    sync::{Arc, Mutex},
    thread,
    time::Duration,
};

use emit::Emitter as _;
use prost::Message as _;

#[path = "../src/data/generated.rs"]
mod generated;

use generated::{
    collector::{
        logs::v1::ExportLogsServiceRequest, metrics::v1::ExportMetricsServiceRequest,
        trace::v1::ExportTraceServiceRequest,
    },
    common::v1 as common,
};

#[derive(Clone, Debug)]
struct Received {
    path: String,
    content_type: String,
    body: Vec<u8>,
}

#[derive(Clone)]
struct Collector {
    addr: String,
    received: Arc<Mutex<Vec<Received>>>,
}

fn read_request(stream: &mut TcpStream) -> Option<Received> {
    let mut buf = Vec::new();
    let mut byte = [0u8; 1];
    while !buf.ends_with(b"\r\n\r\n") {
        match stream.read(&mut byte) {
            Ok(1) => buf.push(byte[0]),
            _ => return None,
        }
    }
    let head = String::from_utf8_lossy(&buf).to_string();
    let mut lines = head.split("\r\n");
    let request_line = lines.next()?;
    let path = request_line.split(' ').nth(1)?.to_string();
    let path = match path.strip_prefix("http://") {
        Some(rest) => rest[rest.find('/').unwrap()..].to_string(),
        None => path,
    };
    let mut content_length = 0usize;
    let mut content_type = String::new();
    for line in lines {
        if let Some((k, v)) = line.split_once(':') {
            let k = k.trim().to_ascii_lowercase();
            let v = v.trim();
            if k == "content-length" {
                content_length = v.parse().unwrap();
            }
            if k == "content-type" {
                content_type = v.to_string();
            }
        }
    }
    let mut body = vec![0u8; content_length];
    stream.read_exact(&mut body).ok()?;
    Some(Received {
        path,
        content_type,
        body,
    })
}

impl Collector {
    fn start() -> Collector {
        let listener = TcpListener::bind("127.0.0.1:0").unwrap();
        let addr = format!("http://{}", listener.local_addr().unwrap());
        let received = Arc::new(Mutex::new(Vec::new()));

        {
            let received = received.clone();
            thread::spawn(move || {
                for stream in listener.incoming() {
                    let Ok(mut stream) = stream else { break };
                    let received = received.clone();
                    thread::spawn(move || {
                        while let Some(req) = read_request(&mut stream) {
                            received.lock().unwrap().push(req);
                            if stream
                                .write_all(b"HTTP/1.1 200 OK\r\ncontent-length: 0\r\n\r\n")
                                .is_err()
                            {
                                break;
                            }
                        }
                    });
                }
            });
        }

        Collector { addr, received }
    }

    fn take(&self) -> Vec<Received> {
        std::mem::take(&mut *self.received.lock().unwrap())
    }
}

fn otlp(c: &Collector, json: bool) -> emit_otlp::Otlp {
    let t = |p: &str| emit_otlp::http(format!("{}{}", c.addr, p)).allow_compression(false);
    if json {
        emit_otlp::new()
            .logs(emit_otlp::logs_json(t("/v1/logs")))
            .traces(emit_otlp::traces_json(t("/v1/traces")))
            .metrics(emit_otlp::metrics_json(t("/v1/metrics")))
            .spawn()
    } else {
        emit_otlp::new()
            .logs(emit_otlp::logs_proto(t("/v1/logs")))
            .traces(emit_otlp::traces_proto(t("/v1/traces")))
            .metrics(emit_otlp::metrics_proto(t("/v1/metrics")))
            .spawn()
    }
}

fn ts(s: u64) -> emit::Timestamp {
    emit::Timestamp::from_unix(Duration::from_secs(s)).unwrap()
}

fn show(reqs: &[Received]) {
    for r in reqs {
        println!("--- {} {}", r.path, r.content_type);
        if r.content_type == "application/json" {
            println!("{}", String::from_utf8_lossy(&r.body));
        } else if r.path == "/v1/logs" {
            println!("{:?}", ExportLogsServiceRequest::decode(&*r.body));
        } else if r.path == "/v1/traces" {
            println!("{:?}", ExportTraceServiceRequest::decode(&*r.body));
        } else {
            println!("{:?}", ExportMetricsServiceRequest::decode(&*r.body));
        }
    }
}

fn emit_props(otlp: &emit_otlp::Otlp, extent: impl emit::extent::ToExtent, props: impl emit::Props) {
    otlp.emit(emit::Event::new(
        emit::path!("hunt"),
        emit::Template::literal("hello"),
        extent,
        props,
    ));
}


/*
C13: "For any event - any ... property values including ... maps with non-string keys ... -
each bundled emitter accepts it without panicking on the caller's thread".

A map whose keys are themselves structured (tuples, byte strings, structs) reaches a `todo!()`
in the OTLP value encoder, which runs inside `Otlp::emit` on the caller's thread.
*/
#[test]
fn map_with_composite_keys_does_not_panic_the_caller() {
    use std::collections::BTreeMap;

    let mut tuple_keys = BTreeMap::new();
    tuple_keys.insert((1i32, 2i32), "a");

    let mut byte_keys = BTreeMap::new();
    byte_keys.insert(vec![1u8, 2u8], "b");

    let mut failures = Vec::new();

    for json in [false, true] {
        let c = Collector::start();
        let otlp = otlp(&c, json);

        for (name, value) in [
            ("tuple_keys", emit::Value::from_sval(&tuple_keys)),
            ("byte_keys", emit::Value::from_sval(&byte_keys)),
        ] {
            let r = std::panic::catch_unwind(std::panic::AssertUnwindSafe(|| {
                emit_props(&otlp, ts(1), [(name, value.by_ref())]);
            }));

            if r.is_err() {
                failures.push(format!(
                    "{name} ({})",
                    if json { "json" } else { "protobuf" }
                ));
            }
        }

        // A well-behaved event still has to come through
        emit_props(&otlp, ts(1), [("ok", emit::Value::from(true))]);
        assert!(otlp.blocking_flush(Duration::from_secs(5)));
        assert_eq!(1, c.take().len());
    }

    assert!(
        failures.is_empty(),
        "expected Otlp::emit to accept maps with non-string keys without panicking on the caller's thread (C13); observed a panic (`not yet implemented` at data/any_value.rs) while emitting: {failures:?}"
    );
}
