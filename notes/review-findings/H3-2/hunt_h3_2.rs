/*
C07: "When a flush reports completion - ... an async flush resolves true, or a blocking flush returns
true - every item whose send returned before the flush was requested has finished its final processing
attempt".

`emit_batcher::tokio::flush` treats its watcher being dropped un-run as success. A watcher is dropped
un-run when the receiver that carried it (it travels with the in-flight batch) goes away before the batch
finished, for example because the task running `Receiver::exec` is cancelled or its runtime shuts down
while the flush is pending. The flush was requested while the receiver was alive (idle, about to take the
batch); the item never finished processing; the async flush still resolves `true`. The thread based `blocking_flush`
answers `false` for the very same sequence (and `Receiver::drop` carries a note that a pending flush is
meant to time out in that case), so the two entry points disagree.
*/

#![cfg(feature = "tokio")]

use std::{
    future,
    sync::{
        atomic::{AtomicBool, AtomicUsize, Ordering},
        Arc,
    },
    time::Duration,
};

struct Scenario {
    sender: Arc<emit_batcher::Sender<Vec<u32>>>,
    started: Arc<AtomicBool>,
    processed: Arc<AtomicUsize>,
    receiver_task: tokio::task::JoinHandle<()>,
}

impl Scenario {
    // Wait until the receiver has taken item `1` and is in the middle of processing it
    async fn wait_until_mid_batch(&self) {
        while !self.started.load(Ordering::SeqCst) {
            tokio::time::sleep(Duration::from_millis(1)).await;
        }
    }
}

// A live, idle receiver and an item `1` whose send has returned
async fn receiver_with_item_sent() -> Scenario {
    let (sender, receiver) = emit_batcher::bounded::<Vec<u32>>(16);
    let sender = Arc::new(sender);

    let started = Arc::new(AtomicBool::new(false));
    let processed = Arc::new(AtomicUsize::new(0));

    let receiver_task = tokio::spawn(receiver.exec(|delay| tokio::time::sleep(delay), {
        let started = started.clone();
        let processed = processed.clone();

        move |batch: Vec<u32>| {
            let started = started.clone();
            let processed = processed.clone();

            async move {
                started.store(true, Ordering::SeqCst);

                // The destination never answers
                future::pending::<()>().await;

                processed.fetch_add(batch.len(), Ordering::SeqCst);
                Ok(())
            }
        }
    }));

    // Let the receiver go idle, like it is between bursts of events
    tokio::time::sleep(Duration::from_millis(150)).await;
    assert!(!receiver_task.is_finished());

    // The send returns before any flush is requested
    sender.send(1);

    Scenario {
        sender,
        started,
        processed,
        receiver_task,
    }
}

#[tokio::test(flavor = "multi_thread", worker_threads = 2)]
async fn async_flush_does_not_report_success_for_an_item_that_was_never_processed() {
    // Reference: the blocking flush over exactly the same sequence
    let blocking_result = {
        let scenario = receiver_with_item_sent().await;

        let flush = tokio::task::spawn_blocking({
            let sender = scenario.sender.clone();
            move || emit_batcher::sync::blocking_flush(&sender, Duration::from_secs(2))
        });

        scenario.wait_until_mid_batch().await;
        assert!(!flush.is_finished());
        scenario.receiver_task.abort();

        let flushed = flush.await.unwrap();
        assert_eq!(0, scenario.processed.load(Ordering::SeqCst));
        flushed
    };

    assert!(
        !blocking_result,
        "the blocking flush is expected to report false here"
    );

    // The async flush
    let scenario = receiver_with_item_sent().await;

    // The flush is requested right after the send, while the receiver is alive
    let flush = tokio::spawn({
        let sender = scenario.sender.clone();
        async move { emit_batcher::tokio::flush(&sender, Duration::from_secs(2)).await }
    });

    // The receiver takes the batch and starts processing it; the flush is still pending
    scenario.wait_until_mid_batch().await;
    assert!(!flush.is_finished());

    // The receiver is torn down mid-batch
    scenario.receiver_task.abort();

    let flushed = flush.await.unwrap();
    let processed = scenario.processed.load(Ordering::SeqCst);

    assert!(
        !(flushed && processed == 0),
        "C07 expects an async flush that resolves true to mean item 1 (sent before the flush was requested) finished its final processing attempt, \
         and expects the async and blocking entry points to agree; observed: async flush resolved {flushed} while {processed} items were processed \
         (the batch was still in flight when its receiver was dropped); blocking_flush returned {blocking_result} for the same sequence"
    );
}
