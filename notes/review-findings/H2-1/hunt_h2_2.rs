// C05: a started, enabled span completes exactly once however it ends, and the completed event
// carries the span's name, kind and properties.
//
// A `#[span]` on an async fn that is cancelled (its future is dropped after it was polled) does
// complete, but outside of its frame, so the event loses every property given to the span.

use std::{
    future::Future,
    pin::pin,
    sync::Mutex,
    task::{Context, Poll, Waker},
};

use emit::{platform::thread_local_ctxt::ThreadLocalCtxt, Props as _};

type Rt = emit::runtime::Runtime<
    emit::emitter::FromFn<fn(emit::Event<&dyn emit::props::ErasedProps>)>,
    emit::Empty,
    ThreadLocalCtxt,
    emit::Empty,
    emit::platform::rand_rng::RandRng,
>;

static SEEN: Mutex<Vec<(Option<String>, Option<String>, bool, bool)>> = Mutex::new(Vec::new());

fn on_event(evt: emit::Event<&dyn emit::props::ErasedProps>) {
    SEEN.lock().unwrap().push((
        evt.props().pull::<String, _>("span_name"),
        evt.props().pull::<String, _>("user"),
        evt.props().get("trace_id").is_some(),
        evt.props().get("span_id").is_some(),
    ));
}

static RT: Rt = emit::runtime::Runtime::build(
    emit::emitter::FromFn::new(on_event as fn(emit::Event<&dyn emit::props::ErasedProps>)),
    emit::Empty,
    ThreadLocalCtxt::shared(),
    emit::Empty,
    emit::platform::rand_rng::RandRng::new(),
);

struct PendingOnce(bool);

impl Future for PendingOnce {
    type Output = ();

    fn poll(mut self: std::pin::Pin<&mut Self>, _: &mut Context<'_>) -> Poll<()> {
        if self.0 {
            Poll::Ready(())
        } else {
            self.0 = true;
            Poll::Pending
        }
    }
}

#[emit::span(rt: RT, "greet {user}", user)]
async fn greet(user: &str) {
    PendingOnce(false).await;
}

#[test]
fn cancelled_async_span_completes_with_its_props() {
    let mut cx = Context::from_waker(Waker::noop());

    // Baseline: a span that runs to the end carries its properties
    {
        let mut fut = pin!(greet("Rust"));
        assert!(fut.as_mut().poll(&mut cx).is_pending());
        assert!(fut.as_mut().poll(&mut cx).is_ready());
    }

    let finished = SEEN.lock().unwrap().pop().expect("the finished span didn't complete");
    assert_eq!(
        (Some("greet {user}".to_owned()), Some("Rust".to_owned()), true, true),
        finished
    );

    // The span is started by the first poll, then cancelled
    {
        let mut fut = Box::pin(greet("Rust"));
        assert!(fut.as_mut().poll(&mut cx).is_pending());
        drop(fut);
    }

    let seen = std::mem::take(&mut *SEEN.lock().unwrap());

    assert_eq!(
        1,
        seen.len(),
        "expected the started span to complete exactly once when its future is dropped"
    );

    let (name, user, has_trace_id, has_span_id) = seen.into_iter().next().unwrap();

    assert_eq!(Some("greet {user}".to_owned()), name);
    assert_eq!(
        (Some("Rust".to_owned()), true, true),
        (user.clone(), has_trace_id, has_span_id),
        "expected the completion of a cancelled span to carry the span's properties (`user: \"Rust\"`) and ids like a span that ran to the end does, but observed user = {user:?}, trace_id present = {has_trace_id}, span_id present = {has_span_id}",
    );
}
